// Package vgotomic stands in for github.com/zond/gotomic in the wasp packages explored by engine
// E4: each hash operation is one atomic step preceded by a scheduling point (gotomic's internal
// CAS loops are trusted to be linearisable and are not explored).
package vgotomic

import (
	"github.com/zond/gotomic"

	"verif/sched"
)

type (
	Hashable  = gotomic.Hashable
	Thing     = gotomic.Thing
	StringKey = gotomic.StringKey
	IntKey    = gotomic.IntKey
)

type Hash struct{ h *gotomic.Hash }

func NewHash() *Hash { return &Hash{h: gotomic.NewHash()} }

func point(what string) {
	if e := sched.Current(); e != nil {
		e.Point(what, nil)
	}
}

func (h *Hash) PutIfMissing(k Hashable, v Thing) bool {
	point("Hash.PutIfMissing")
	return h.h.PutIfMissing(k, v)
}
func (h *Hash) Put(k Hashable, v Thing) (Thing, bool) {
	point("Hash.Put")
	return h.h.Put(k, v)
}
func (h *Hash) Get(k Hashable) (Thing, bool) {
	point("Hash.Get")
	return h.h.Get(k)
}
func (h *Hash) Delete(k Hashable) (Thing, bool) {
	point("Hash.Delete")
	return h.h.Delete(k)
}
func (h *Hash) Size() int { return h.h.Size() }
