# Registry: property -> phases (engine package, test function, report phase name) + manifest texts.
LEVEL = {"C15": "fault_enumeration"}

ENGINES = [
    {"name": "E4-schedx", "path": "e4 (+ sched, vsync, vgotomic)", "serves_properties": ["C20", "C04", "C06", "C08", "C09", "C15"],
     "kind_free_text": "cooperative scheduler + DFS over choice sequences with iterative preemption bounding on the real code rebuilt with a go build -overlay that rewrites \"sync\" to verif/vsync and gotomic to verif/vgotomic; separate free-running -race pass"},
    {"name": "E5-inpackage", "path": "e5", "serves_properties": ["C14", "C15", "C16", "C17"],
     "kind_free_text": "exhaustive enumeration inside a package of the repository that cannot be imported (cmd/wasp, package main): the harness test file is compiled into that package through a go test -overlay, /repo itself is not touched"},
    {"name": "E3-crashx", "path": "e3", "serves_properties": ["C15"],
     "kind_free_text": "crash-point enumeration with real child processes killed by SIGKILL at verif-tag hook points in wasp/messages/store.go, restarted on the same directory"},
    {"name": "E2-brokermc", "path": "e2", "serves_properties": ["C01", "C02", "C03", "C04", "C05", "C06", "C07", "C11", "C12", "C13", "C14", "C16", "C17", "C18"],
     "kind_free_text": "complete 1-3 node broker wired in-process like cmd/wasp/main.go inside a Go 1.26 testing/synctest bubble (virtual time, exact quiescence); DFS over enumerated environment-event sequences, each path replayed from a fresh world in crash-contained worker processes"},
    {"name": "E1-seqx", "path": "e1", "serves_properties": ["C01", "C04", "C06", "C07", "C08", "C09", "C10", "C16", "C19"],
     "kind_free_text": "explicit-state BFS to fixpoint / exhaustive bounded operation sequences on the real data structures, in lock-step with a Go reference model"},
]

PHASES = {
    "C20": [
        {"pkg": "e4", "test": "TestC20Schedules", "phase": "C20/schedules"},
        {"pkg": "e4", "test": "TestC20Race", "phase": "C20/race-pass", "race": True},
        # the orderly stop ends every session from one goroutine while their connection workers run: all of them must end
        {"pkg": "e2", "test": "TestC11GracefulShutdown", "phase": "C11/graceful-shutdown"},
        # identifiers and in-flight entries while writer, sweeper, connection workers and publish workers of a whole broker
        # run side by side (failed socket writes, acknowledgements racing with expiry): same scripts as C03
        {"pkg": "e2", "test": "TestC03Retransmission", "phase": "C03/retransmission"},
        # state shared between CONNECTIONS (decoders, buffers of the set-up workers): a packet arriving in two pieces
        # while up to 45 other connections are set up and served must arrive intact (same paths as C18's split-packets)
        {"pkg": "e2", "test": "TestC18SplitPackets", "phase": "C18/split-packets"},
    ],
    "C15": [
        {"pkg": "e3", "test": "TestC15Crash", "phase": "C15/crash-points"},
        # the log as cmd/wasp wires it, behind a subscriber that stops reading (real process, loopback sockets)
        {"pkg": "e5", "test": "TestC15RealProcess", "phase": "C15/real-process-lagging-consumer"},
        # "handed to the delivery scheduler": the real SchedulePublishes + writer queue behind the consumer, with the
        # writer stalled by a subscriber that stops reading (same paths as C02's stalled-subscriber phase)
        {"pkg": "e2", "test": "TestC02Stalled", "phase": "C02/stalled-subscriber"},
        # "every message appended ... is handed over": concurrent appenders (publish workers, RPC handlers) under the
        # controlled scheduler, the commit-log library's locks being scheduling points; each appended message must be
        # readable back intact at its own offset
        {"pkg": "e4", "test": "TestC20Schedules", "phase": "C15/schedules",
         "env": {"VERIF_E4_PROPERTY": "C15", "VERIF_E4_FILTER": "messages.Log"}},
    ],
    "C18": [
        {"pkg": "e2", "test": "TestC18HostileInput", "phase": "C18/hostile-streams"},
        {"pkg": "e2", "test": "TestC18SplitPackets", "phase": "C18/split-packets"},
        {"pkg": "e2", "test": "TestC18WorkerStarvation", "phase": "C18/publish-worker-starvation"},
        {"pkg": "e2", "test": "TestC18SlowConnect", "phase": "C18/slow-connect"},
        {"pkg": "e2", "test": "TestC18SilentReader", "phase": "C18/silent-reader"},
    ],
    "C17": [
        {"pkg": "e2", "test": "TestC17MountPoints", "phase": "C17/mount-point-isolation"},
        {"pkg": "e2", "test": "TestC17NodeFailure", "phase": "C17/node-failure-wills"},
        {"pkg": "e2", "test": "TestC17CredentialFile", "phase": "C17/credential-file-mount-points"},
        # the real process (cmd/wasp run(), production wiring incl. the audit trail published per tenant), on loopback ports
        {"pkg": "e5", "test": "TestC17RealBroker", "phase": "C17/real-process-wiring"},
    ],
    "C14": [
        {"pkg": "e2", "test": "TestC14CrossNode", "phase": "C14/cross-node-delivery"},
        {"pkg": "e2", "test": "TestC14FailedPeer", "phase": "C14/failed-peer"},
        {"pkg": "e2", "test": "TestC14FilterSets", "phase": "C14/filter-sets"},
        # the inter-node wiring of package main: two real brokers on loopback ports, node B's RPC endpoint cut by a relay
        {"pkg": "e5", "test": "TestC14RealCluster", "phase": "C14/real-cluster-wiring"},
    ],
    "C13": [
        {"pkg": "e2", "test": "TestC13Wills", "phase": "C13/will-messages"},
    ],
    "C12": [
        {"pkg": "e2", "test": "TestC12Takeover", "phase": "C12/client-id-takeover"},
        {"pkg": "e2", "test": "TestC12Chain3", "phase": "C12/chain-of-three"},
        {"pkg": "e2", "test": "TestC12Seams", "phase": "C12/takeover-seams"},
        {"pkg": "e2", "test": "TestC12RealIdentifiers", "phase": "C12/real-session-identifiers"},
    ],
    "C11": [
        {"pkg": "e2", "test": "TestC11Lifecycle", "phase": "C11/session-lifecycle"},
        {"pkg": "e2", "test": "TestC11Pipelined", "phase": "C11/pipelined-connect"},
        {"pkg": "e2", "test": "TestC11PeersFailTogether", "phase": "C11/peers-fail-together"},
        {"pkg": "e2", "test": "TestC11GracefulShutdown", "phase": "C11/graceful-shutdown"},
        {"pkg": "e2", "test": "TestC11SlowAcks", "phase": "C11/late-answers-to-every-copy"},
        # a reconnection under the same client identifier with the built-in handlers' session identifiers: the current
        # session must survive the end of the previous connection (same paths as C03's)
        {"pkg": "e2", "test": "TestC03Reconnect", "phase": "C03/reconnect-under-same-client-id"},
    ],
    "C05": [
        {"pkg": "e2", "test": "TestC05StoreBeforeAck", "phase": "C05/store-before-ack"},
        {"pkg": "e2", "test": "TestC05SlowRemote", "phase": "C05/slow-remote-log"},
        {"pkg": "e2", "test": "TestC05RealLogFailure", "phase": "C05/real-log-failure"},
    ],
    "C03": [
        {"pkg": "e2", "test": "TestC03Retransmission", "phase": "C03/retransmission"},
        {"pkg": "e2", "test": "TestC03TimerPhase", "phase": "C03/timer-phase"},
        {"pkg": "e2", "test": "TestC03SessionDigits", "phase": "C03/session-id-digits"},
        {"pkg": "e2", "test": "TestC03Reconnect", "phase": "C03/reconnect-under-same-client-id"},
        # retransmission to the other sessions must survive one subscriber that stops reading (same paths as C18's)
        {"pkg": "e2", "test": "TestC18SilentReader", "phase": "C18/silent-reader"},
    ],
    "C02": [
        {"pkg": "e2", "test": "TestC02Delivery", "phase": "C02/acknowledged-publish-delivered"},
        {"pkg": "e2", "test": "TestC02Stalled", "phase": "C02/stalled-subscriber"},
    ],
    "C01": [
        {"pkg": "e1", "test": "TestC01Matcher", "phase": "C01/matcher-pairs"},
        {"pkg": "e1", "test": "TestC01Independence", "phase": "C01/filter-independence"},
        {"pkg": "e1", "test": "TestC01Histories", "phase": "C01/subscription-histories"},
        {"pkg": "e2", "test": "TestC01Wire", "phase": "C01/wire"},
        # matching sessions must get the message wherever the log stands: logs prefilled up to the offsets at which they are
        # trimmed, restarts, stalled subscribers (same paths as C02's)
        {"pkg": "e2", "test": "TestC02Delivery", "phase": "C02/acknowledged-publish-delivered"},
        {"pkg": "e2", "test": "TestC02Stalled", "phase": "C02/stalled-subscriber"},
    ],
    "C07": [
        {"pkg": "e1", "test": "TestC07Retained", "phase": "C07/retained-histories"},
        {"pkg": "e1", "test": "TestC07TwoWriters", "phase": "C07/two-publishers"},
        {"pkg": "e2", "test": "TestC07Wire", "phase": "C07/wire"},
        {"pkg": "e2", "test": "TestC07LateAnswers", "phase": "C07/late-answers"},
        {"pkg": "e2", "test": "TestC07ManyRetained", "phase": "C07/many-retained-while-writer-busy"},
    ],
    "C08": [
        {"pkg": "e1", "test": "TestC08Convergence", "phase": "C08/convergence"},
        # a local change racing with the merge of a newer remote copy of the same entry: the node must end where a
        # replica that received the same updates ends (every interleaving, preemption bounded)
        {"pkg": "e4", "test": "TestC20Schedules", "phase": "C08/schedules",
         "env": {"VERIF_E4_PROPERTY": "C08", "VERIF_E4_FILTER": "distributed: sessions.Delete(s1),distributed: topics.Set"}},
    ],
    "C10": [
        {"pkg": "e1", "test": "TestC10FullState", "phase": "C10/full-state-exchange"},
    ],
    "C09": [
        {"pkg": "e1", "test": "TestC09Broadcasts", "phase": "C09/broadcast-completeness"},
        # concurrent local writes vs merge on one retained topic: the node must keep what its broadcasts convey
        {"pkg": "e4", "test": "TestC20Schedules", "phase": "C09/schedules",
         "env": {"VERIF_E4_PROPERTY": "C09", "VERIF_E4_FILTER": "distributed: topics"}},
    ],
    "C16": [
        {"pkg": "e1", "test": "TestC16Store", "phase": "C16/credential-stores"},
        {"pkg": "e2", "test": "TestC16Wire", "phase": "C16/wire"},
        # the broker's own configuration code (package main) builds the handler: configured values must reach it verbatim
        {"pkg": "e5", "test": "TestC16Config", "phase": "C16/configured-provider"},
    ],
    "C04": [
        {"pkg": "e1", "test": "TestC04Queue", "phase": "C04/queue-sequences"},
        {"pkg": "e1", "test": "TestC04TimerList", "phase": "C04/timer-list-sequences"},
        {"pkg": "e4", "test": "TestC20Schedules", "phase": "C04/schedules",
         "env": {"VERIF_E4_PROPERTY": "C04", "VERIF_E4_FILTER": "ack.Queue,pqList,skipList"}},
        # the whole broker: an exchange in flight for one session while another session ends
        {"pkg": "e2", "test": "TestC04OtherSessionEnds", "phase": "C04/other-session-ends"},
    ],
    "C06": [
        {"pkg": "e1", "test": "TestC06Pool", "phase": "C06/allocator-states"},
        {"pkg": "e4", "test": "TestC20Schedules", "phase": "C06/schedules",
         "env": {"VERIF_E4_PROPERTY": "C06", "VERIF_E4_FILTER": "idpool"}},
        # the writer-side clause (identifiers of outbound messages released on every path): same scripts as C03
        {"pkg": "e2", "test": "TestC03Retransmission", "phase": "C03/retransmission"},
        {"pkg": "e2", "test": "TestC03TimerPhase", "phase": "C03/timer-phase"},
    ],
    "C19": [
        {"pkg": "e1", "test": "TestC19Topics", "phase": "C19/topics-store"},
        {"pkg": "e1", "test": "TestC19Subs", "phase": "C19/subscription-index"},
        {"pkg": "e1", "test": "TestC19SessionTopics", "phase": "C19/session-topic-list"},
        {"pkg": "e1", "test": "TestC19EmptyLevels", "phase": "C19/empty-levels"},
    ],
}

META = {
    "C20": {
        "engine": "E4-schedx (+ free-running -race pass)",
        "technique": "stateless model checking of the real shared structures under a cooperative scheduler: every interleaving of 3 threads at lock / lock-free-hash operations up to a preemption bound (iterative context bounding), linearizability oracle; plus a separate free-running race-detector pass",
        "text": "13 three-thread scenarios on colliding keys over the session registry, identifier pool, in-flight table, both timeout lists, subscription and retained tries, replicated session/subscription state and the per-session filter list; sync and gotomic are replaced by scheduler-aware shims through a build overlay regenerated from the working tree on every run; every schedule with at most 2 (quick) / 3 (thorough) preemptions is executed on a fresh instance and its (results, final observation) must be explained by a sequential order of the operations consistent with real-time order; deadlocks and panics are violations. The same bodies then run free on real goroutines under the race detector (sampling, reported separately).",
        "note": "Choice points are synchronisation operations only: unsynchronised accesses are visible to the race pass, not to the scheduler; gotomic's internal CAS loops are trusted; each hash operation is one atomic step. Round-4 additions: operations can be guarded (a client that acknowledges only once it has read the PUBLISH blocks at a scheduling point until then, and sequential orders in which the guard does not hold are infeasible); the message log's appends are explored too (the store opens the commit log through a lock-taking proxy because module-cache files cannot be overlaid); concurrent exact-topic retained lookups below a leaf and in an empty branch. Round 5: session and retained-message writes running concurrently; a target file that no longer uses package sync is taken as it is (its accesses are then visible to the race pass only). Round 6: a list returned by GetTopics must go on saying what it said (absolute outcome check); C18's split-packet phase (state shared between connections). Round 7: the graceful-shutdown phase and the whole-broker retransmission scripts are part of this check; E4 shims sync in every target file that imports it; watched sequential reference runs. Round 8: E4 scenario Delete(a alone in its second) / Insert(c) / Insert(d).",
    },
    "C15": {
        "engine": "E3-crashx",
        "technique": "exhaustive crash-point enumeration: the real consumer runs in child processes that are killed with SIGKILL at named hook points (offset x phase), over bounded sequences of crash/restart rounds with appends in between, on real files",
        "text": "For small logs every (offset, phase) crash point with phases callback-entered / callback-returned / before-persist / after-persist / stopped by cancellation / stopped by callback error, all ordered pairs of rounds with 0, 1 or 10 appends in between (thorough: more lengths, all triples for N=8); for a 2600-entry log (segments of 500, truncation at 2000) crash points at every segment/truncation edge and sampled batch positions (thorough: every offset) incl. before/after-truncate, plus pairs over 21 boundary offsets. Per incarnation offsets are consecutive; a restart begins no later than one past the last completed offset and replays at most the last completed one plus the one in progress; payloads match their offsets; a final run hands over everything.",
        "note": "Crash model: process death (SIGKILL), kernel page cache survives; torn 8-byte writes and power loss are outside the model. 'Handed to the delivery scheduler' is additionally exercised end to end: the real SchedulePublishes + writer queue behind the consumer with the writer stalled by a subscriber that stops reading (E2 phase shared with C02), incl. a 5600-message backlog. The consumer callback also reads a message three offsets back through Log.Get while the consumption goes on (the writer lags behind the consumer); a schedule-exploration phase (E4) runs three concurrent appenders with the commit-log calls as scheduling points and reads every offset back. Round 5: the child runs the broker's own SchedulePublishes in front of a recording writer (hook VerifScheduleWriter) for every phase except the callback-error one. Round 6: the consumer process offers its own log a publish of exactly the commit log's maximum payload size (refused), then appends two more, before consuming. Round 7: stored messages carry six topic names (among them filter-like and $SYS names); E5 phase real-process-lagging-consumer on run() of cmd/wasp.",
    },
    "C18": {
        "engine": "E2-brokermc",
        "technique": "exhaustive enumeration of a bounded byte-stream grammar (valid templates x structure-aware mutations x connection contexts) against the in-process broker in crash-contained worker processes, with a witness round trip after every stream",
        "text": "About 20k (quick) / 60k (thorough) byte streams: 20 valid packet templates (all 14 types, CONNECT and SUBSCRIBE variants), truncated at every offset, with every other first byte (type and flag nibbles), 10 remaining-length encodings incl. over-long and 5-byte forms, every inner length prefix in {0, true-1, true+1, 0xffff}, identifier 0/65535, QoS 3, empty topic lists and protocol-level oddities, each as first packet, after CONNECT and after CONNECT+SUBSCRIBE, plus all ordered pairs of valid packets. After each stream the worker process must be alive, the witness connections open, and a witness QoS 1 publish must be acknowledged and delivered within 10 s.",
        "note": "Limit: streams outside the grammar are not covered (the claim is the grammar and its size); a client that stops reading is a transport-level behaviour outside the quantifier; transient memory for an announced-but-unsent body is not judged. A path that makes no progress for 75 s of real time is reported as a hang (a spinning or self-deadlocked broker goroutine never lets virtual time advance). After every stream a witness also publishes into the hostile client's own filter space. A second phase sends a valid large PUBLISH in two pieces while up to 45 other clients connect in between. Streams of QoS 2 publishes that are never released, under the identifiers the broker is about to use for its own deliveries to that client (the hostile client then does not auto-complete handshakes). Round 5: SUBSCRIBE / UNSUBSCRIBE templates on the filter the witness holds; a phase in which 22 or 45 clients each send a PUBLISH announcing a 21 MB body and close the connection (found the log-consumer wedge fixed in 0e48f9a). Round 6: phase silent-reader. Round 7: announced lengths from 40 below to 8 above the log's entry limit; phase slow-connect (20/25 connections trickling their CONNECT).",
    },
    "C17": {
        "engine": "E2-brokermc",
        "technique": "explicit enumeration of two-tenant event sequences on the in-process broker, each executed twice for a differential non-interference oracle plus a direct provenance oracle",
        "text": "Every event sequence up to depth 3 (quick) / 4 (thorough) over 13 events per tenant (subscribe #, +, +/t, t, t/#; publish t, t/u, m2/t with and without retain; will-bearing drop; connect with the other tenant's client identifier) for mount-point pairs (m1,m2), (m1,m10), (m10,m1), on 1 (thorough: also 2) nodes. Every PUBLISH a client receives must carry a (topic, payload) its own tenant published, verbatim; tenant A's complete observation (inbox, liveness, ping) must equal its observation with all of tenant B's events deleted.",
        "note": "Inboxes compared as multisets. Also: QoS 2 publishes started and released as separate events, topics and filters a path-cleaning prefix function would rewrite ('../<other mount>/t', './t', 't//u'), and a node-failure phase: the failing (or gracefully stopped) node hosts interleaved will-bearing sessions of both tenants and each tenant's watcher must get exactly its own wills. Round 4: a QoS 1 subscription that never acknowledges plus a 4 s wait (retransmitted copies must carry the same topic; QoS 1 copies are compared per distinct (topic, payload), their count and identifiers being timing dependent); a credentials-file phase: every order of four entries (two named mount points, a two-field line, an empty third field) loaded by the real file handler, each user must see exactly the messages of the users sharing its mount point. Round 5: a topic whose first level is empty (/t). Round 6: a second client per tenant under a client identifier both tenants use (QoS 2 start / release, observed); E5 phase real-process-wiring: cmd/wasp run() on loopback ports with file authentication and the stdout audit recorder, every ordered pair of 12 (tenant, event) combinations, nothing received (audit trail included) may name the other tenant.",
    },
    "C14": {
        "engine": "E2-brokermc",
        "technique": "exhaustive enumeration of subscriber placements x unreachable-destination subsets x topic/filter pairs on the 2-3 node in-process broker with recording log proxies and fault-injecting inter-node transport",
        "text": "For 2 and 3 nodes: every assignment of {matching, non-matching} subscribers to nodes, every subset of remote nodes unreachable at publish time, 2-4 topic/filter pairs, QoS 1 and 2 (thorough: publisher on either node, subscription gossip of one node withheld). Each node's log must see exactly one successful append iff it hosts a matching subscription known to the publishing node and is reachable, subscribers receive the message exactly once from their own node, an unreachable destination does not stop the others, and the acknowledgement is present iff no destination failed.",
        "note": "Destinations 'known to the publishing node' are computed from that node's subscription listing with the reference matcher (not from the lookup the publish path uses). Also: the topic published once before anybody subscribes, a second matching subscriber created last on a node, slow (not unreachable) destinations, a remote subscriber that unsubscribed without the publisher being told yet, a local session whose subscription was re-created through another node's RPC API. The inter-node connections use the production dial options (rpc.GRPCClientOptions: interceptor chain, TLS) over the in-memory listener. Round 5: an unreachable node is a real client connection whose transport is refused (the call fails or blocks as the production call options make it), not an error returned by the harness. Round 6: a subscription that comes and goes within one gossip round on a node without matching subscriber (absolute demand: no append there). E5 phase real-cluster-wiring: two real cmd/wasp brokers on loopback ports, matching subscribers on both, 5 publishes while node B is reachable and 5 after a relay in front of its RPC port was cut (never acknowledged, the local subscriber still served): an integration scenario for the wiring of package main, not an enumeration. One-late-answer deviations (client-write, log-append, rpc) around the publish with every node hosting a subscriber. Round 7: phase failed-peer (crash, 0..all clients reconnect elsewhere before the failure is reported, or their session records never arrived; afterwards no subscription of the failed node, publishes acknowledged and delivered once). Round 8: phase filter-sets (every 3- and 4-subset of 8 filters sharing levels over three nodes).",
    },
    "C13": {
        "engine": "E2-brokermc",
        "technique": "exhaustive cross product of will parameters x termination causes x watcher placements on the 1-3 node in-process broker under virtual time",
        "text": "Will topic {w, w/x} x QoS {0,1,2} x retain x mount point {default, m1} x cause {DISCONNECT, connection loss, keep-alive expiry, protocol error, failure of the hosting node} x every non-empty subset of watcher nodes on 1-2 (quick) / 1-3 (thorough) nodes, three watchers (w, w/+, #) per node plus one in another mount point: after DISCONNECT nobody receives the will within 10 s; otherwise every surviving watcher of the same mount point whose filter matches receives it exactly once with the topic as the client wrote it, and the foreign watcher receives nothing.",
        "note": "Watchers acknowledge promptly; which survivor publishes the will after a node failure is free; the retain flag / QoS of the delivered copy are not judged here. Also: empty will payload; a later client with the same client id in another mount point; a second tenant's will-bearing session on the failing node; failure detected 500 ms apart on three nodes; clean DISCONNECT followed by node failure with the removal overtaking the creation, or with the removal gossip lost and only a full-state exchange in between. Also: connection loss while the other nodes do not answer (their watchers' subscriptions still listed): the dying session's own node still owes its watchers the will. Round 5: connection lost before the CONNACK was written; retained wills with an empty payload. Round 6: a will larger than a gossip datagram. One-late-answer deviations under each will-owing cause (2 nodes, watchers on both). Round 7: cause malformed-packet (a SUBSCRIBE with an empty body: the decoder runs off the buffer). Round 8: cause disconnect-reconnect-in-one-gossip-round-then-leave.",
    },
    "C12": {
        "engine": "E2-brokermc",
        "technique": "explicit enumeration of ordered event selections (old-session ping/subscribe/disconnect/drop, single gossip deliveries, new-session subscribe) on a 2-node in-process broker with manually scheduled gossip",
        "text": "Two (thorough: three) connections sharing one client identifier on the same or different nodes, the first record gossiped beforehand; every ordered selection of up to 4 (quick) / 5 (thorough) of 9 events incl. delivering each pending broadcast individually. The new CONNECT is always accepted; once the old session's node holds the new record its next PINGREQ is not answered and it is torn down; the new session's record and subscriptions never disappear from a node that listed them; after all gossip every node resolves the identifier to the newest session.",
        "note": "Before the displaced session's node has received the new record (read from that node's listing) a PINGRESP is legal; run-to-quiescence between events. Also: the new session's own DISCONNECT / drop as events, the accepting node's clock 30 s behind / ahead (outside the stated quantifier, final oracles only), and a chain-of-three phase on three nodes where the third connection meets a node that still holds both earlier records. A seam phase pauses the connection manager right after its look-up of the old record, after the removal and after the creation of the new record, and lets the previous connection DISCONNECT, drop or ping at that very point (12 x 2 placements): the new connection must be accepted and the identifier resolve to it alone. Round 6: the accepting node 45 s and one hour behind. Round 7: phase real-session-identifiers (2-3 connections with one client identifier authenticated by the built-in handlers, same instant / 1 ms / 1 s apart).",
    },
    "C11": {
        "engine": "E2-brokermc",
        "technique": "explicit enumeration of a session-script grammar x termination causes x gossip delivery policies on the 1-3 node in-process broker under virtual time",
        "text": "Every script connect(keep-alive 2|10 s) . up to 2 (quick) / 3 (thorough) middle events (subscribe sets, unsubscribes, ping, idle 1 s / 3.5 s / 0.9K / 1.4K, also directly after CONNACK) . cause (none, DISCONNECT, drop, silence > 2K, second CONNECT, displacement on the same / another node, failure of the hosting node) under gossip policies auto / withhold-all / reverse / withhold-one; the session must survive every legal script, and after a cause the connection is closed, record and subscriptions vanish from every node, nothing more is written to it, and every listed subscription belongs to a listed session connected on the node it names.",
        "note": "Scripts also contain deliveries to the session followed by silence, a connection lost between SUBSCRIBE and SUBACK, and keep-alive values at the 16-bit edges (32767, 32768, 32769, 65535). A path keeps being judged after the known finding matched. Only silences <= 1.4 x keep-alive are required to be survived (any allowance >= 1.5 x keep-alive satisfies the oracle); the broker may, not must, end a session silent for > 2K; clean broker shutdown is outside the quantifier. Also: the second connection accepted by a node that has not heard of the first session yet (record arrives afterwards: the newer connection must stay served, the older be displaced and its record removed), and session ends left in a node's transmit queue while a third node is declared failed. Round 5: another client's CONNECT accepted while the connection breaks before the CONNACK can be written (nothing of it may remain). Round 6: phases pipelined-connect (packets sent behind CONNECT without waiting for CONNACK, in one write or cut at 30 / 4200 bytes) and peers-fail-together (two nodes declared failed 0 to 6 s apart). One-late-answer deviations (client-write 1..10) on short scripts with keep-alive 10 s. Round 7: phase graceful-shutdown (Manager.DisconnectClients with 1/2/3/6 sessions, alone or next to a surviving node); the world keeps the default stdout audit recorder, which fails for the harness's short session identifiers. Round 8: C03's reconnect phase (built-in handlers' session identifiers) is part of this check and judges that the current session survives the end of the previous connection.",
    },
    "C05": {
        "engine": "E2-brokermc",
        "technique": "explicit enumeration of publisher scripts x subscriber placements x write-fault subsets on a 2-node in-process broker with recording / fault-injecting log proxies and inter-node transport",
        "text": "Every publisher script up to depth 3 (quick) / 4 (thorough) over PUBLISH QoS 0/1/2 (fresh or repeated identifier, DUP or not), PUBREL for a pending / completed / unknown identifier and a handshake timeout, for destination sets {}, {local}, {remote}, {local, remote} and every subset of {local log write fails, remote node unreachable}; an acknowledgement must be preceded by a successful append on every destination log, a failed destination withholds it, and each QoS 2 handshake forwards exactly once (on PUBREL), never on PUBLISH alone or on repeats.",
        "note": "Global sequence numbers order proxy events against client reads; what happens to the session after a repeated QoS 2 PUBLISH is recorded, not judged. Also: a client of another mount point with the publisher's client identifier releasing the publisher's pending identifier (must forward nothing), and a remote node that answers but whose log refuses the append. Round 5: the topic is published once before anybody subscribed; retain-flag variants under each write fault. Round 6: a phase with remote appends that take 0.9 to 7 s (at most one append per publish and handshake). Round 7: every event publishes on its own topic and what reaches a log must carry it; phase real-log-failure (the log directory becomes unusable one or zero entries before a segment is full; the oracle reads the log back). Round 8: event rel-again (PUBREL for a handshake that failed or timed out); every topic of a script is published once before anybody subscribes.",
    },
    "C03": {
        "engine": "E2-brokermc",
        "technique": "explicit enumeration of client response scripts (all interleavings of per-delivery automata) on the complete in-process broker under virtual time, real 1 s expiry ticker",
        "text": "All interleavings of acknowledge / wrong-type / wrong-identifier / silence-past-deadline / disconnect events over 2 in-flight deliveries (QoS 1 and QoS 2; thorough: 3 deliveries over 2 sessions) up to 6-7 events, with the production identifier range and with a 3-identifier pool; the oracle keys on the deadline the implementation registered: every pending delivery is sent again with the same identifier after each silence, PUBREL follows PUBREC, nothing is sent after completion during a 60 s horizon, identifiers of finished deliveries are free and a further message still gets one.",
        "note": "Run-to-quiescence between client events; the client drains its socket; DUP flag not judged. Also in the scripts: a bystander with other QoS levels on the same filters, a failed first transmission (write error injected at the broker's end of the connection), stray QoS 2 acknowledgements for somebody else's identifier, displacement of the subscriber by a newer connection. A second phase (timer-phase) sends one delivery to a silent subscriber for every tenth of a second of sweep-ticker phase x registration time (also 2.5-3.5 s after an acknowledged earlier delivery) and requires a retransmission within 8 s. A shorter script family adds: the subscriber publishing at QoS 2 under the identifier of a delivery in flight to it (the broker may end the session, otherwise the delivery must go on), and one retransmission round whose socket writes fail. Round 5: two registrations falling into one one-second bucket and reaching the queue in reverse order (ack proxy); a bystander granted the reserved QoS 3; an accounting oracle (identifiers taken == deliveries legitimately in flight); the timer phase drops the silent subscriber at the end and requires an empty pool; a phase with session identifiers A and A+\"1\" (from the authentication seam) and packet identifiers 12 and 2 in flight. Round 6: the silent-reader phase (a subscriber that never reads; retransmissions to the others go on). Round 7: early-expiry oracle at the queue seam (no re-registration earlier than 1 s before the registered deadline unless the queue accepted an acknowledgement in between); event other-session-ends; exhausted-pool probe; phase reconnect-under-same-client-id with the built-in handlers' session identifiers.",
    },
    "C02": {
        "engine": "E2-brokermc",
        "technique": "explicit enumeration of publish-event sequences x message-log states on the complete in-process broker under virtual time (synctest), run to quiescence after every event",
        "text": "(plus a stalled-subscriber phase: a subscriber that stops reading while 400-1300 further messages are published across segment and truncation boundaries, then reads again, must still get every acknowledged publish) Every publish sequence (2 publishers x QoS 0/1/2) up to depth 2-3 (quick) / 3-4 (thorough) from an empty log and from logs pre-filled to 19 lengths around batch (10), segment (500) and truncation (1500/1000) boundaries, with and without a restarted consumer; payload sizes at the encoder's length edges; plus a boundary sweep over P in 1..2600. Every publish whose PUBACK/PUBCOMP the publisher read must appear, topic and payload intact, at each of three connected subscribers (QoS 0/1/2) within 30 s of virtual time.",
        "note": "One node (remote delivery is C14); subscribers acknowledge promptly; real commit log on /dev/shm; run-to-completion between events; the stalled subscriber uses QoS 0 (net.Pipe serialises concurrent writers with a mutex that synctest cannot see through). Also: a subscriber that reached its subscription through subscribe / unsubscribe / subscribe again, and QoS 2 publishers that answer PUBREC only 6 s later (a PUBCOMP then still obliges delivery). Round 5: QoS 2 publishers whose PUBRELs only follow after the whole sequence; subscribers whose CONNACK write returns 1 s after the bytes reached them. Round 6: a subscriber with QoS 2 publishes of its own pending under the identifiers the broker is about to use; retained and empty-payload publishes; ONE LATE ANSWER: every depth-2 sequence under each of the first 30 broker-to-client writes and 3 log appends returning 1.5 s late (deviation bound 1; E2 is built with channel-based locks so that virtual time advances while a goroutine is kept waiting). Round 7: retained topics t/$k; variant with an empty log and a consumer state file that holds 0.",
    },
    "C01": {
        "engine": "E1-seqx + E2-brokermc",
        "technique": "exhaustive (filter, topic) enumeration and bounded subscription histories on the real trie / replicated state vs an MQTT 4.7 reference; explicit event exploration of the in-process broker for bytes on the wire",
        "text": "All 318k (filter, topic) pairs of up to 4 levels over {a,b,c,+,#,empty} on the real trie; every ordered pair (thorough: triple) of 53 filters with remove/re-insert for independence; every Create/Delete/DeleteSession history of depth 4 (quick) / 5 (thorough) over 2 sessions x 4 filters with ByPattern compared on 14 topics after each step and a differential equal-active-set oracle; replication echoes (own full state merged back, last broadcast redelivered) inside the histories; plus a wire phase on 1 and 2 nodes: a session holding one or an ordered pair of 10 representative filters, or reaching its set through subscribe/unsubscribe/re-subscribe histories, must read exactly one PUBLISH per matching active subscription for each of 5 topics, verbatim, while another session gets only its own.",
        "note": "$-topics and invalid filters are outside the alphabet; the known empty-level finding is matched by recomputing the truncation the defect performs. The wire phase also lets every node be told that its peers (re)joined, and a client of another mount point connect with the subscribed session's client identifier, before the publishes: neither may cost the session a delivery. Round 5: every topic is also published once before anybody subscribes; a variant in which nothing ever happens on the publisher's node except the arrival of gossip; a third node failing (and its sessions being purged 3 s later) while the session's subscriptions are still in its node's transmit queue. Round 6: the answer to the first forwarded publish is lost on the way back (the peer stored the message). Round 7: topics with a `$` level below the first (a/$b) in the matcher and wire alphabets; the world runs the broker's own tap dispatcher, and an environment with a recorder that takes 1 s per message under a burst of 48 publishes must not cost a delivery. Round 8: C02's delivery and stalled-subscriber paths (logs prefilled across the trim offsets) are part of this check.",
    },
    "C07": {
        "engine": "E1-seqx + E2-brokermc",
        "technique": "exhaustive bounded Set/Delete histories on the real retained-message state (origin + replica) vs a map reference; explicit event exploration on the in-process broker for the wire half",
        "text": "Every retained Set/Delete sequence of length 1..4 (quick) / 1..5 (thorough) over 5 prefix-sharing topics and 2 payloads on node A with node B fed by A's broadcasts; after each sequence Get(f) for 176 filters (<=3 levels over {a,b,c,+}, trailing #, plus root-level wildcards) on both nodes equals the last non-empty payload per matching topic.",
        "note": "The E1 phase also feeds further replicas with the same broadcasts in every other order (<=3 updates) or reversed. The E2 wire phase enumerates publish(topic, retain, payload incl. empty) / subscribe(one or several filters in one packet) sequences on 1-2 nodes: the late subscriber must read SUBACK followed by exactly one retain-flagged PUBLISH per subscription and matching topic with a non-empty last retained payload; live copies carry no retain flag. A two-publisher phase: Set/Delete on one topic issued on two nodes, every subset of the broadcasts held back until the end; both nodes must end with what the last change left. The wire phase also has retained wills (with payload and empty) of dropped connections. Round 5: the two-publisher phase under a clock that never advances (nothing held); the snapshot merged by a fresh node also carries a subscription without session identifier, which the receiver refuses. Round 6: phase late-answers: a retained QoS 1 publish under exactly one late answer of the environment with a subscriber arriving at that moment. Round 7: phase many-retained-while-writer-busy (10/26/40 retained topics, the writer held 0/0.3/1.5/2.6 s by another session's write).",
    },
    "C08": {
        "engine": "E1-seqx",
        "technique": "exhaustive enumeration of update sets x delivery permutations x batchings x duplications on the real merge code vs a newest-entry-wins reference",
        "text": "Update sets of up to 4 (quick) / 5 (thorough) broadcasts produced by the real mutators on two origins (clock offset 0 / -2.5 / +2.5 ticks, origins synchronised or not) for sessions, subscriptions, retained messages and a mixed alphabet; every permutation x contiguous batching and every single duplication is delivered to a fresh replica; replicas and both origins must list the per-key newest entry, removed entries staying removed.",
        "note": "Ties between different values of one key at one timestamp are excluded (the logical clock is strictly increasing; offsets are not multiples of a tick). Batches are formed by concatenating the protobuf events. One session of the alphabets belongs to a client with an empty client identifier. Round 5: an E4 phase explores a local session removal racing with the merge of a newer remote copy of the same record (plus a retained write): the node must end where a replica fed with the same updates ends. Round 6: one origin's clock one hour ahead. Round 7: stamps are wall-clock readings around the real present; origin B two hours ahead / nine hours behind; a snapshot is served between any two deliveries; a replica fed from origin A's snapshot and then every update again.",
    },
    "C10": {
        "engine": "E1-seqx",
        "technique": "exhaustive enumeration of node-history pairs x lost-gossip subsets x snapshot exchange modes on the real replicated state vs a newest-entry-wins reference",
        "text": "Every pair of histories (A: up to 3 operations, B: up to 1 (quick) / 2 (thorough)) over 8-10 session / subscription / retained mutators, every subset of the gossip between the nodes lost, then LocalState->MergeRemoteState A->B, B->A or both; a fresh node must list exactly what the sender lists, a lagging node must hold the newer of both copies (removals included), and after both directions the listings must be identical.",
        "note": "No clock skew here (C08 covers it); reference computed from the decoded broadcasts each node has seen, and cross-checked against each node's listing before the exchange. One session of the alphabet belongs to a client with an empty client identifier. Round 5: the bytes of a snapshot handed out earlier must not change when a later one is assembled. Round 6: bulk removals (DeletePeer of the other node, DeleteSession) in the alphabet. Round 7: B's clock two hours ahead / nine hours behind (shorter histories of A at the quick depth). Round 8: the whole alphabet at the quick depth; in half of the cases an hour passes between the last change and the exchange.",
    },
    "C09": {
        "engine": "E1-seqx",
        "technique": "exhaustive bounded operation sequences on the real replicated state, mirror node fed with the queued broadcasts, listing comparison after every step",
        "text": "Every sequence of depth 4 (quick) / 5 (thorough) over 25 session / subscription / retained mutators incl. DeleteSession and DeletePeer bulk operations, from an empty node and from a node preloaded with another peer's entries; after each operation the origin's queue is drained into a mirror whose listing must equal the origin's, and every changed key must be named by that operation's broadcast.",
        "note": "Strictly increasing logical clock through the verif hook VerifSetClock; one broadcast per operation is delivered in order (reordering is C08's subject). Additionally every sequence one operation shorter under a clock that never advances (all changes within one reading; in-order mirror only: equal subscription stamps are a genuine tie for reordered delivery); one session has an empty client identifier. Round 6: depth-2 sequences under the broker's default stdout audit recorder (it returns an error for session identifiers shorter than 8 characters). Round 7: QoS 3 subscription, 300-byte payload and 134-byte topic in the alphabet. Round 8: a second session of the same client (sess.Create(s3, client c1)).",
    },
    "C16": {
        "engine": "E1-seqx + E2-brokermc",
        "technique": "exhaustive enumeration of credential tables x candidates on the real handlers vs a map model; explicit event exploration of refused/accepted CONNECTs on the in-process broker",
        "text": "Every credential table over 6 users (all subsets; every 2-field / 3-field / empty-mount-point shape per entry; every file order up to 3 (quick) / 4 (thorough) entries, rotations and reversals beyond) is loaded by the real FileHandler and probed with exact, wrong-password, other-entry-password, swapped, empty and absent candidates; the static handler is probed over a 5x5x5x5 value grid. Accepted iff the pair is in the table, with that entry's mount point.",
        "note": "The file stores the password fingerprint (sha256 hex) in field 2, as the record type PasswordHash says; duplicate user names are not generated. The E2 wire phase puts both real stores behind a real CONNECT: a refused candidate gets a refusal CONNACK and leaves no session, subscription, retained message or will on any node even if it goes on to SUBSCRIBE / PUBLISH retained / drop with a will; an accepted one is listed in its entry's mount point and isolated accordingly. One configured password is the empty string (its fingerprint is the digest of nothing); small tables also get a locked account (empty fingerprint column) at every position, which no candidate may open. Round 5: an in-package phase (engine E5) compiles a test into cmd/wasp through an overlay and drives getAuthHandler: every configured static pair of a pool with leading/trailing blanks, tabs and newlines against every candidate pair, the file provider through its configured path, unknown provider names. Round 6: zero-length client identifier with a token-length password. Round 7: 25 admissions after every refusal; non-UTF-8 user names and passwords against the handler cmd/wasp configures, panics reported as values.",
    },
    "C04": {
        "engine": "E1-seqx + E4-schedx",
        "technique": "exhaustive bounded operation sequences on the real in-flight queue vs a map model; exhaustive preemption-bounded interleavings for the concurrent clause",
        "text": "Every register/acknowledge/sweep sequence up to depth 4 (quick) / 5 (thorough) over 3 colliding keys, 2-4 packet kinds, equal / same-second / past / future deadlines, wrong-type and unknown-id acknowledgements and 3 sweep times, on the real ack.Queue over both timeout-list implementations; each entry must get exactly one outcome, duplicates are rejected, no operation touches another entry, and a final far-future sweep must resolve everything pending.",
        "note": "Deadline/sweep domains keep every (deadline, now) pair >= 1 s apart so rounding inside a second is never judged. Spurious List.Expire results for already-deleted ids are not judged. Keys (s,1), (s,11), (s1,1): the last two run together into the same characters. A timer-list phase drives the deadline list directly (Insert/Delete/Expire over 3 keys with same-second, out-of-order, past and future deadlines, depth 4/5) with the queue's call discipline: a deleted entry is never reported, an armed one exactly once. Round 5: the timer-list phase also inserts every arrival order of 6 and 7 deadlines lying in distinct seconds and sweeps once at 8 instants. Round 6: 40 entries one second apart, one late sweep. Round 7: whole-broker phase other-session-ends (an exchange of each kind in flight while another session ends by each cause at +0.1/+1.2/+2.3 s, judged against the deadline observed at the queue seam); E4 scenario with an expiry callback that registers again; sequential reference runs are watched (a single-thread sequence that does not return is a violation). Round 8: pending kind inbound-qos2-released-late (nothing else in flight; PUBREL 3 s after the registered deadline finds no exchange); E4 scenario where a deletion empties a second's bucket while registrations for that second arrive.",
    },
    "C06": {
        "engine": "E1-seqx",
        "technique": "explicit-state BFS to fixpoint over the real allocator vs a set model, plus bounded sequences at the production-range edges",
        "text": "All reachable allocator states for several small ranges (BFS to fixpoint; state = every allocator field + reference outstanding set) under Get/Put of every in-range, boundary and out-of-range value, with a full drain in every state; on the production range 0..65535 every Get/Put sequence of depth 3 (quick) / 4 (thorough) from the states fresh, 65534, 65535 and all identifiers outstanding; the concurrent clause by E4 schedules on the pool; the writer-side clause (identifiers of outbound messages distinct while in flight and released after completion, wrong-type acknowledgements, expiry and session end) by the C03 client-script exploration with a 3-identifier pool.",
        "note": "The allocator is assumed to behave uniformly in the numeric values between the chosen small ranges and the production range edges; concurrent use is covered by C20. Round 5: the C03 timer phase (with its final drop and empty-pool check) is part of this check too. Round 7: exhausted-pool probe inside the C03 scripts (nothing goes out under a taken or impossible identifier).",
    },
    "C19": {
        "engine": "E1-seqx",
        "technique": "explicit-state BFS to fixpoint over the real tries vs a map reference model",
        "text": "Every reachable state of topics.Store and subscriptions.Tree over 5 (quick) / 8 (thorough) prefix-sharing keys under insert/replace/remove/upsert and dump+load round trips is visited (BFS to fixpoint, state = exact internal node tree incl. nil-vs-empty child maps + reference map); after every transition Match/Walk on every key, Count and Iterate are compared with a plain map.",
        "note": "Keys and values are a small alphabet; trie behaviour is assumed uniform in the level strings. Internal tree read through reflection (field `root`). Every transition is also bracketed by two dumps: the one taken before it must still rebuild the state it was taken in after the operation and the later dump. Round 5: the state key of the search is a reflection-based rendering of every field of the store (hidden caches and indexes included, pointer aliasing preserved); key buffers handed to the stores are overwritten after each call. Round 7: key a/ in the quick subscription index; phase session-topic-list (the session's filter list and mount-point prefixing as a map over full strings; slices handed out earlier are re-read after every step). Round 8: phase empty-levels (both stores to fixpoint over a, a/, a/b, a/b/, /a, a//b).",
    },
}
