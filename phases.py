# Registry: property -> phases (engine package, test function, report phase name) + manifest texts.
LEVEL = {"C15": "fault_enumeration"}

ENGINES = [
    {"name": "E1-seqx", "path": "e1", "serves_properties": ["C01", "C04", "C06", "C07", "C08", "C09", "C10", "C16", "C19"],
     "kind_free_text": "explicit-state BFS to fixpoint / exhaustive bounded operation sequences on the real data structures, in lock-step with a Go reference model"},
]

PHASES = {
    "C16": [
        {"pkg": "e1", "test": "TestC16Store", "phase": "C16/credential-stores"},
    ],
    "C04": [
        {"pkg": "e1", "test": "TestC04Queue", "phase": "C04/queue-sequences"},
    ],
    "C06": [
        {"pkg": "e1", "test": "TestC06Pool", "phase": "C06/allocator-states"},
    ],
    "C19": [
        {"pkg": "e1", "test": "TestC19Topics", "phase": "C19/topics-store"},
        {"pkg": "e1", "test": "TestC19Subs", "phase": "C19/subscription-index"},
    ],
}

META = {
    "C16": {
        "engine": "E1-seqx + E2-brokermc",
        "technique": "exhaustive enumeration of credential tables x candidates on the real handlers vs a map model; explicit event exploration of refused/accepted CONNECTs on the in-process broker",
        "text": "Every credential table over 6 users (all subsets; every 2-field / 3-field / empty-mount-point shape per entry; every file order up to 3 (quick) / 4 (thorough) entries, rotations and reversals beyond) is loaded by the real FileHandler and probed with exact, wrong-password, other-entry-password, swapped, empty and absent candidates; the static handler is probed over a 5x5x5x5 value grid. Accepted iff the pair is in the table, with that entry's mount point.",
        "note": "The file stores the password fingerprint (sha256 hex) in field 2, as the record type PasswordHash says; duplicate user names are not generated.",
    },
    "C04": {
        "engine": "E1-seqx + E4-schedx",
        "technique": "exhaustive bounded operation sequences on the real in-flight queue vs a map model; exhaustive preemption-bounded interleavings for the concurrent clause",
        "text": "Every register/acknowledge/sweep sequence up to depth 4 (quick) / 5 (thorough) over 3 colliding keys, 2-4 packet kinds, equal / same-second / past / future deadlines, wrong-type and unknown-id acknowledgements and 3 sweep times, on the real ack.Queue over both timeout-list implementations; each entry must get exactly one outcome, duplicates are rejected, no operation touches another entry, and a final far-future sweep must resolve everything pending.",
        "note": "Deadline/sweep domains keep every (deadline, now) pair >= 1 s apart so rounding inside a second is never judged. Spurious List.Expire results for already-deleted ids are not judged.",
    },
    "C06": {
        "engine": "E1-seqx",
        "technique": "explicit-state BFS to fixpoint over the real allocator vs a set model, plus bounded sequences at the production-range edges",
        "text": "All reachable allocator states for several small ranges (BFS to fixpoint; state = every allocator field + reference outstanding set) under Get/Put of every in-range, boundary and out-of-range value, with a full drain in every state; on the production range 0..65535 every Get/Put sequence of depth 3 (quick) / 4 (thorough) from the states fresh, 65534, 65535 and all identifiers outstanding.",
        "note": "The allocator is assumed to behave uniformly in the numeric values between the chosen small ranges and the production range edges; concurrent use is covered by C20.",
    },
    "C19": {
        "engine": "E1-seqx",
        "technique": "explicit-state BFS to fixpoint over the real tries vs a map reference model",
        "text": "Every reachable state of topics.Store and subscriptions.Tree over 5 (quick) / 8 (thorough) prefix-sharing keys under insert/replace/remove/upsert and dump+load round trips is visited (BFS to fixpoint, state = exact internal node tree incl. nil-vs-empty child maps + reference map); after every transition Match/Walk on every key, Count and Iterate are compared with a plain map.",
        "note": "Keys and values are a small alphabet; trie behaviour is assumed uniform in the level strings. Internal tree read through reflection (field `root`).",
    },
}
