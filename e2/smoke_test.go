package e2

import (
	"testing"
	"time"
)

func TestSmoke(t *testing.T) {
	for i := 0; i < 3; i++ {
		RunBubble(t, "smoke", func(t *testing.T) {
			start := time.Now()
			w := NewWorld(t, 2)
			defer w.Close()
			sub := w.NewClient("sub", 2, AckAll)
			if rc := sub.Connect(ConnectOpts{ClientID: "sub", KeepAlive: 30}); rc != 0 {
				t.Fatalf("connack %d", rc)
			}
			w.Step()
			sub.Subscribe(1, 1, "a/+")
			w.Step()
			pub := w.NewClient("pub", 1, AckAll)
			pub.Connect(ConnectOpts{ClientID: "pub", KeepAlive: 30})
			w.Step()
			pub.Publish("a/b", "zero", 1, false, 7)
			w.Step()
			pub.Publish("a/b", "hello", 1, false, 8)
			w.Step()
			w.Idle(5 * time.Second)
			t.Logf("virtual elapsed %v", time.Since(start))
			t.Logf("sub inbox: %v", sub.InboxDigest())
			t.Logf("pub inbox: %v", pub.InboxDigest())
			t.Logf("n1 %v", w.Node(1).View())
			t.Logf("n2 %v", w.Node(2).View())
			t.Logf("log events %v rpc %v", w.LogEvents, w.RPCEvents)
		})
	}
}
