package e2

import (
	"fmt"
	"sort"
	"strings"
	"testing"
	"time"

	"github.com/vx-labs/mqtt-protocol/packet"

	"verif/internal/vk"
)

// C11: sessions end only for cause; ending one closes the connection and removes its record and
// subscriptions everywhere; at quiescence every listed subscription belongs to a listed, connected session.

type c11path struct {
	Nodes  int      `json:"nodes"`
	K      int32    `json:"keepalive_s"`
	Middle []string `json:"middle"`
	Cause  string   `json:"cause"`
	Gossip string   `json:"gossip"`
	// Dev: exactly one answer of the environment returns 1.5 s after taking effect (installed after the CONNECT)
	Dev *Deviation `json:"one_late_answer,omitempty"`
}

var c11middle = []string{"sub-a", "sub-b#", "sub-a+b#", "unsub-a", "unsub-b#", "ping", "idle-1s", "idle-3.5s", "idle-0.9K", "idle-1.4K", "recv"}

func c11paths() []c11path {
	var out []c11path
	maxJ := vk.Pick(2, 3)
	var scripts [][]string
	var rec func(cur []string)
	rec = func(cur []string) {
		scripts = append(scripts, append([]string{}, cur...))
		if len(cur) == maxJ {
			return
		}
		for _, e := range c11middle {
			rec(append(cur, e))
		}
	}
	rec(nil)
	if maxJ < 3 {
		// a few three-event scripts in the quick tier: something is delivered to the session, then it stays silent
		for _, sub := range []string{"sub-a", "sub-b#"} {
			for _, idle := range []string{"idle-1s", "idle-3.5s", "idle-0.9K", "idle-1.4K"} {
				scripts = append(scripts, []string{sub, "recv", idle})
			}
		}
	}
	causes1 := []string{"none", "disconnect", "drop", "silence", "second-connect", "displaced-same-node", "subscribe-and-drop", "connect-answer-lost"}
	causes2 := append(append([]string{}, causes1...), "displaced-other-node", "leave", "displaced-other-node-unaware", "leave-and-rejoin-notice")
	// keep-alive values at the edges of the 16-bit field: only short absolute idles (1 s, 3.5 s), pings and subscriptions
	for _, k := range []int32{32767, 32768, 32769, 65535} {
		for _, s := range scripts {
			if len(s) > 2 {
				continue
			}
			ok := true
			for _, e := range s {
				if e == "idle-0.9K" || e == "idle-1.4K" {
					ok = false
				}
			}
			if !ok {
				continue
			}
			for _, c := range []string{"none", "disconnect", "drop"} {
				out = append(out, c11path{1, k, s, c, "auto", nil})
			}
		}
	}
	for _, k := range []int32{2, 10} {
		for _, s := range scripts {
			// consecutive idle events add up to one silence; only silences <= 1.4 x keep-alive must be survived
			{
				skip := false
				run := 0.0
				for _, e := range s {
					d := map[string]float64{"idle-1s": 1, "idle-3.5s": 3.5, "idle-0.9K": 0.9 * float64(k), "idle-1.4K": 1.4 * float64(k)}[e]
					if e == "recv" {
						// being sent something is not a packet FROM the client: the silence goes on
						run += 0.3
						continue
					}
					if d == 0 {
						run = 0.3
					} else {
						run += d
					}
					if run > 1.4*float64(k)+0.001 {
						skip = true
					}
				}
				if skip {
					continue
				}
			}
			for _, c := range causes1 {
				out = append(out, c11path{1, k, s, c, "auto", nil})
			}
			if len(s) > 2 && !vk.Thorough() {
				continue
			}
			gossips := []string{"auto", "withhold-all", "reverse", "withhold-0"}
			if vk.Thorough() && len(s) <= 2 {
				gossips = append(gossips, "withhold-0", "withhold-1", "withhold-2", "withhold-3", "withhold-4")
			}
			for _, c := range causes2 {
				for _, g := range gossips {
					if len(s) == 3 && g != "auto" {
						continue
					}
					if c == "displaced-other-node-unaware" && g != "withhold-all" && g != "reverse" {
						continue // needs every broadcast withheld until the second connection is accepted
					}
					out = append(out, c11path{2, k, s, c, g, nil})
				}
			}
			if len(s) <= 1 && k == 10 {
				// the end of the session is still in node 1's transmit queue when another node (3) is declared failed: what
				// node 1 queues because of that failure must not cost the queued removals their delivery
				for _, c := range []string{"none", "disconnect", "drop", "subscribe-and-drop"} {
					out = append(out, c11path{3, k, s, c, "queued-while-node-3-fails", nil})
				}
			}
			if vk.Thorough() && len(s) <= 1 {
				for _, c := range causes2 {
					out = append(out, c11path{3, k, s, c, "auto", nil}, c11path{3, k, s, c, "withhold-all", nil})
				}
			}
		}
	}
	// one late answer: short scripts without long silences (a held write adds to the client's silence), keep-alive 10 s
	for _, n := range []int{1, 2} {
		for _, mid := range [][]string{{}, {"sub-a"}, {"sub-a+b#"}, {"ping"}, {"sub-a", "recv"}} {
			for _, c := range []string{"none", "disconnect", "drop", "displaced-same-node", "subscribe-and-drop"} {
				for k := 1; k <= 10; k++ {
					out = append(out, c11path{Nodes: n, K: 10, Middle: mid, Cause: c, Gossip: "auto", Dev: &Deviation{"client-write", k, 1500 * time.Millisecond}})
				}
			}
		}
	}
	return out
}

func TestC11Lifecycle(t *testing.T) {
	paths := c11paths()
	RunPaths(t, "C11", "C11/session-lifecycle", "TestC11Lifecycle", len(paths), vk.Pick(8*time.Minute, 40*time.Minute),
		func(t *testing.T, i int, rep *vk.Report) {
			p := paths[i]
			RunBubble(t, fmt.Sprintf("p%d", i), func(t *testing.T) {
				w := NewWorld(t, p.Nodes)
				defer w.Close()
				violKF := func(kf, sig, format string, a ...any) {
					rep.Violate(vk.Violation{Sig: sig, KF: kf, Msg: fmt.Sprintf("%d node(s), keep-alive %ds, script %v, cause %s, gossip %s: ", p.Nodes, p.K, p.Middle, p.Cause, p.Gossip) + fmt.Sprintf(format, a...), Replay: p})
				}
				viol := func(sig, format string, a ...any) {
					rep.Violate(vk.Violation{Sig: sig, Msg: fmt.Sprintf("%d node(s), keep-alive %ds, script %v, cause %s, gossip %s: ", p.Nodes, p.K, p.Middle, p.Cause, p.Gossip) + fmt.Sprintf(format, a...), Replay: p})
				}
				switch {
				case p.Gossip == "withhold-all" || p.Gossip == "reverse":
					w.GossipAuto = true
					w.GossipHold = func(int) bool { return true }
				case strings.HasPrefix(p.Gossip, "withhold-"):
					var k int
					fmt.Sscanf(p.Gossip, "withhold-%d", &k)
					w.GossipHold = func(idx int) bool { return idx == k }
				}
				release := func() {
					w.GossipHold = nil
					w.DeliverAll(p.Gossip == "reverse")
					w.PumpGossip()
				}
				K := time.Duration(p.K) * time.Second
				c := w.NewClient("c", 1, AckAll)
				if rc := c.Connect(ConnectOpts{ClientID: "X", KeepAlive: p.K, WillTopic: "will/x", WillMsg: "gone"}); rc != 0 {
					viol("c11-connect-refused", "CONNACK %d", rc)
					return
				}
				sid := c.SessionID
				w.PumpGossip()
				w.SetDeviation(p.Dev)
				// a witness publishes later to check nothing reaches an ended session
				alive := func(stage string) bool {
					if c.BrokerClosed() {
						viol("c11-ended-without-cause", "after %s the broker closed the connection although every silence was <= 1.4 x keep-alive and every packet legal", stage)
						return false
					}
					if w.Node(1).Local.Get(sid) == nil {
						viol("c11-ended-without-cause", "after %s the session is no longer registered on its node although every silence was <= 1.4 x keep-alive and every packet legal", stage)
						return false
					}
					return true
				}
				mid := int32(1)
				pings := 0
				var feeder *Client
				subscribed := map[string]bool{}
				for k, ev := range p.Middle {
					mid++
					switch ev {
					case "sub-a":
						c.Subscribe(mid, 0, "a")
						subscribed["a"] = true
					case "sub-b#":
						c.Subscribe(mid, 0, "b/#")
						subscribed["b/#"] = true
					case "sub-a+b#":
						c.Subscribe(mid, 0, "a", "b/#")
						subscribed["a"], subscribed["b/#"] = true, true
					case "unsub-a":
						c.Unsubscribe(mid, "a")
						delete(subscribed, "a")
					case "unsub-b#":
						c.Unsubscribe(mid, "b/#")
						delete(subscribed, "b/#")
					case "recv":
						// somebody publishes on both filters the script may hold: the broker writes to the session (QoS 0)
						if feeder == nil {
							feeder = w.NewClient("feeder", p.Nodes, AckAll)
							feeder.Connect(ConnectOpts{ClientID: "feeder", KeepAlive: 6000})
						}
						feeder.Publish("a", "feed", 0, false, 0)
						feeder.Publish("b/x", "feed", 0, false, 0)
					case "ping":
						c.Ping()
						pings++
					case "idle-1s":
						w.Idle(time.Second - Settle)
					case "idle-3.5s":
						w.Idle(3500*time.Millisecond - Settle)
					case "idle-0.9K":
						w.Idle(K*9/10 - Settle)
					case "idle-1.4K":
						w.Idle(K*14/10 - Settle)
					}
					w.Step()
					Observe(w, rep)
					if !alive(fmt.Sprintf("event %d (%s)", k, ev)) {
						return
					}
					if ev == "ping" && c.Count("PINGRESP") != pings {
						viol("c11-ping-unanswered", "PINGREQ %d got no PINGRESP", pings)
						return
					}
					if strings.HasPrefix(ev, "sub-") && c.Count("SUBACK") == 0 {
						viol("c11-subscribe-unanswered", "no SUBACK")
						return
					}
				}
				// liveness probe before the cause
				c.Ping()
				pings++
				w.Step()
				if !alive("the script") {
					return
				}
				if c.Count("PINGRESP") != pings {
					viol("c11-ping-unanswered", "final PINGREQ got no PINGRESP: the session is no longer served")
					return
				}
				ended := true
				expectClose := true
				lateFromDead := map[string]bool{}
				lateSessionKept := false
				lateSubKept := map[string]bool{}
				kfLate := func(key string) string {
					if strings.HasPrefix(p.Cause, "leave") && lateFromDead[key] {
						return "C11-late-gossip-from-failed-node"
					}
					return ""
				}
				var c2, lost *Client
				if p.Gossip == "queued-while-node-3-fails" {
					w.PumpGossip()
					w.GossipLazy = true
				}
				switch p.Cause {
				case "none":
					ended = false
				case "disconnect":
					c.Disconnect()
				case "connect-answer-lost":
					// another client's CONNECT is accepted but the connection breaks before the answer can be written: that
					// session ends at once (connection loss) and must leave nothing behind; the scripted session lives on
					ended = false
					lost = w.NewClient("lost", 1, AckAll)
					lost.FailBrokerWrites(true)
					lost.SendRaw(EncodeConnect(&packet.Connect{Header: &packet.Header{}, ClientId: []byte("Y"), KeepaliveTimer: 600, Clean: true, WillTopic: []byte("will/y"), WillPayload: []byte("y-gone"), WillQos: 1}))
					w.Step()
					w.mu.Lock()
					lost.SessionID = w.lastSessionID // handed out by the authentication seam; the client never learned it
					w.mu.Unlock()
					lost.Drop()
				case "drop":
					c.Drop()
					expectClose = false
				case "subscribe-and-drop":
					// the connection is lost while the SUBSCRIBE is being processed / before its SUBACK is read
					c.Subscribe(99, 0, "late/#", "a")
					c.Drop()
					expectClose = false
				case "silence":
					w.Idle(2*K + 2*time.Second)
					// the broker is allowed, not obliged, to end the session
					if w.Node(1).Local.Get(sid) != nil && !c.BrokerClosed() {
						ended = false
					}
				case "second-connect":
					c.SendRaw(EncodeConnect(&packet.Connect{Header: &packet.Header{}, ClientId: []byte("X"), KeepaliveTimer: p.K, Clean: true}))
				case "displaced-same-node", "displaced-other-node":
					release() // proviso: the accepting node has learned of the earlier session
					if p.Gossip != "auto" {
						w.GossipHold = func(int) bool { return false }
					}
					node := 1
					if p.Cause == "displaced-other-node" {
						node = 2
					}
					c2 = w.NewClient("c2", node, AckAll)
					if rc := c2.Connect(ConnectOpts{ClientID: "X", KeepAlive: 600}); rc != 0 {
						viol("c11-displacing-connect-refused", "CONNACK %d", rc)
						return
					}
					w.Step()
					release()
					// the old client's next keep-alive exchange
					c.Ping()
					w.Step()
					if c.Count("PINGRESP") != pings {
						viol("c11-displaced-session-still-served", "the displaced session's PINGREQ was answered after its node learned of the new session")
						return
					}
				case "displaced-other-node-unaware":
					// the same client connects to node 2 before node 2 has heard of the session on node 1 (every broadcast was
					// withheld so far): the earlier session's record only arrives afterwards. The later connection is the
					// client's current one all the same: the earlier one is displaced, the later one is served.
					c2 = w.NewClient("c2", 2, AckAll)
					if rc := c2.Connect(ConnectOpts{ClientID: "X", KeepAlive: 600}); rc != 0 {
						viol("c11-displacing-connect-refused", "CONNACK %d", rc)
						return
					}
					w.Step()
					release()
					w.Step()
					c2.Ping()
					w.Step()
					if c2.BrokerClosed() || c2.Count("PINGRESP") != 1 {
						viol("c11-ended-without-cause:newer-session", "the client's newer connection (node 2) was ended or not served once the record of its earlier session (node 1) arrived (closed=%v)", c2.BrokerClosed())
						return
					}
					c.Ping()
					w.Step()
					if c.Count("PINGRESP") != pings {
						viol("c11-displaced-session-still-served", "the displaced session's PINGREQ was answered after its node learned of the new session")
						return
					}
				case "leave", "leave-and-rejoin-notice":
					// gossip of the failed node still in flight (relayed by others) may arrive after the failure notice
					w.DrainGossip()
					for _, m := range w.Pending {
						if m.From == 1 {
							if es, err := decodeKeys(m.Payload); err == nil {
								for _, k := range es {
									lateFromDead[k] = true
								}
							}
						}
					}
					w.Leave(1)
					expectClose = false
					if p.Cause == "leave-and-rejoin-notice" {
						// the machine comes back under its node id one second later, before the survivors have purged its
						// sessions: the membership layer reports a join; the sessions it hosted died with it all the same
						w.Idle(time.Second)
						for _, sv := range w.Nodes {
							if !sv.Dead {
								sv.Members.NotifyGossipJoin(1)
							}
						}
					}
				}
				w.Step()
				if p.Gossip == "queued-while-node-3-fails" {
					// something else is queued on node 1 too (a subscription of another session), then node 3 fails
					other := w.NewClient("other", 1, AckAll)
					other.Connect(ConnectOpts{ClientID: "other", KeepAlive: 600})
					other.Subscribe(1, 0, "other/#")
					w.Step()
					w.Leave(3)
					w.GossipLazy = false
				}
				release()
				if !ended {
					// a session that must stay alive keeps pinging within its keep-alive during the horizon
					quantum := K * 9 / 10
					if quantum > 2*time.Second {
						quantum = 2 * time.Second
					}
					for spent := time.Duration(0); spent < 6*time.Second; spent += quantum {
						w.Idle(quantum)
						c.Ping()
						w.Step()
					}
				} else {
					w.Idle(5 * time.Second)
				}
				release()
				w.Idle(time.Second)
				Observe(w, rep)
				if !ended {
					if !alive("the horizon (no cause)") {
						return
					}
				} else {
					if expectClose && !c.BrokerClosed() {
						viol("c11-connection-not-closed:"+p.Cause, "the session ended (%s) but the broker never closed its network connection (the client end saw no EOF)", p.Cause)
						return
					}
					before := len(c.Received())
					// nothing published afterwards is written to it
					host := 1
					if strings.HasPrefix(p.Cause, "leave") {
						host = 2
					}
					wit := w.NewClient("witness", host, AckAll)
					wit.Connect(ConnectOpts{ClientID: "witness", KeepAlive: 600})
					wit.Publish("a", "late", 0, false, 0)
					wit.Publish("b/c", "late", 0, false, 0)
					w.Step()
					release()
					w.Idle(time.Second)
					if n := len(c.Received()); n != before {
						viol("c11-written-after-end", "%d packet(s) were written to the ended session: %v", n-before, c.Received()[before:])
						return
					}
					for _, n := range w.Nodes {
						if n.Dead {
							continue
						}
						v := n.View()
						for _, s := range v.Sessions {
							if strings.HasPrefix(s, sid+" ") {
								violKF(kfLate("session:"+sid), "c11-session-record-left:"+p.Cause, "after the session ended and all gossip was delivered, node %d still lists its record: %s", n.ID, s)
								if kfLate("session:"+sid) == "" {
									return
								}
								lateSessionKept = true // the known finding does not excuse anything else: keep judging
							}
						}
						for _, s := range v.Subscriptions {
							if strings.HasPrefix(s, sid+" ") {
								k := kfLate("sub:" + strings.Fields(s)[0] + "|" + strings.Fields(s)[1])
								violKF(k, "c11-subscription-left:"+p.Cause, "after the session ended and all gossip was delivered, node %d still lists its subscription: %s", n.ID, s)
								if k == "" {
									return
								}
								lateSubKept[strings.Fields(s)[0]+"|"+strings.Fields(s)[1]] = true
							}
						}
						for _, s := range v.LocalSessions {
							if s == sid {
								viol("c11-local-registration-left:"+p.Cause, "node %d still has the ended session in its local registry", n.ID)
								return
							}
						}
					}
					MarkNontrivial(fmt.Sprintf("%v", p))
					rep.Nontrivial++
				}
				if lost != nil {
					for _, n := range w.Nodes {
						if n.Dead {
							continue
						}
						for _, s := range n.DState.SessionMetadatas().All() {
							if s.ClientID == "Y" {
								viol("c11-session-record-left:connect-answer-lost", "the connection was lost before the CONNACK could be written; 6 s later node %d still lists the session record %s of that client", n.ID, s.SessionID)
								return
							}
						}
						if n.ID == 1 && lost.SessionID != sid && n.Local.Get(lost.SessionID) != nil {
							viol("c11-local-registration-left:connect-answer-lost", "node 1's registry still holds session %s, whose connection was lost before the CONNACK could be written", lost.SessionID)
							return
						}
					}
				}
				// referential integrity at quiescence, on every live node
				for _, n := range w.Nodes {
					if n.Dead {
						continue
					}
					sessions := map[string]uint64{}
					for _, s := range n.DState.SessionMetadatas().All() {
						sessions[s.SessionID] = s.Peer
					}
					for _, s := range n.DState.Subscriptions().All() {
						if lateSubKept[s.SessionID+"|"+string(s.Pattern)] || (lateSessionKept && s.SessionID == sid && lateFromDead["sub:"+s.SessionID+"|"+string(s.Pattern)]) {
							continue // already reported as the known finding
						}
						peer, ok := sessions[s.SessionID]
						if !ok {
							viol("c11-orphan-subscription:"+p.Cause, "node %d lists subscription %s %s whose session is not listed", n.ID, s.SessionID, s.Pattern)
							return
						}
						if peer != s.Peer {
							viol("c11-subscription-wrong-peer", "node %d lists subscription %s %s on peer %d but its session on peer %d", n.ID, s.SessionID, s.Pattern, s.Peer, peer)
							return
						}
						host := w.Node(int(s.Peer))
						if host.Dead || host.Local.Get(s.SessionID) == nil {
							viol("c11-subscription-of-disconnected-session:"+p.Cause, "node %d lists subscription %s %s but that session is not connected on node %d", n.ID, s.SessionID, s.Pattern, s.Peer)
							return
						}
					}
				}
				if !ended {
					// subscriptions the script left active are still listed everywhere
					for _, n := range w.Nodes {
						if n.Dead {
							continue
						}
						got := map[string]bool{}
						for _, s := range n.DState.Subscriptions().All() {
							if s.SessionID == sid {
								got[strings.TrimPrefix(string(s.Pattern), "_default/")] = true
							}
						}
						if fmt.Sprint(keys(got)) != fmt.Sprint(keys(subscribed)) {
							viol("c11-live-subscriptions-differ", "node %d lists subscriptions %v for the live session, the script left %v", n.ID, keys(got), keys(subscribed))
							return
						}
					}
				}
				if i%499 == 0 {
					rep.Sample(p)
				}
			})
		},
		func(i int) any { return paths[i] },
		func(rep *vk.Report) {
			rep.Rule = "paths = connect(keep-alive 2|10 s) . up to j middle events from " + strings.Join(c11middle, ",") + " . cause in {none, disconnect, drop, silence > 2K, second CONNECT, displaced (same|other node), leave(host)} x gossip policy {auto, withhold-all, reverse, withhold-k, left in the transmit queue while another node fails} on 1-3 nodes; non-trivial = paths in which the session ended and the cleanup obligations were evaluated"
			rep.Bounds["max_middle_events"] = vk.Pick(2, 3)
			rep.Bounds["silences_required_to_survive"] = "<= 1.4 x keep-alive"
			rep.Floor("ended_sessions", 100, rep.Nontrivial)
		})
}

func keys(m map[string]bool) []string {
	var out []string
	for k := range m {
		out = append(out, k)
	}
	sortStrings(out)
	return out
}

// TestC11Pipelined: a client need not wait for the CONNACK before it sends its next packets (MQTT 3.1.4): CONNECT and
// what follows arrive in one write. Nothing of what follows may be lost, whatever its size, and the session stays served.
func TestC11Pipelined(t *testing.T) {
	type pp struct {
		Follow []string `json:"packets_behind_connect"`
		Split  int      `json:"bytes_in_the_first_write"` // 0: everything in one write; otherwise the first write ends there
	}
	var paths []pp
	follows := [][]string{{"ping"}, {"sub"}, {"sub", "ping"}, {"pub-8k", "ping"}, {"sub", "pub-5k", "ping"}, {"pub-8k", "sub", "pub-5k", "ping"}, {"pub-100", "pub-8k", "pub-100", "ping"}}
	for _, f := range follows {
		paths = append(paths, pp{f, 0})
		paths = append(paths, pp{f, 30})   // the first write ends inside what follows the CONNECT
		paths = append(paths, pp{f, 4200}) // ... or beyond 4 KiB
	}
	RunPaths(t, "C11", "C11/pipelined-connect", "TestC11Pipelined", len(paths), vk.Pick(4*time.Minute, 10*time.Minute),
		func(t *testing.T, i int, rep *vk.Report) {
			p := paths[i]
			RunBubble(t, fmt.Sprintf("p%d", i), func(t *testing.T) {
				w := NewWorld(t, 1)
				defer w.Close()
				viol := func(sig, format string, a ...any) {
					rep.Violate(vk.Violation{Sig: sig, Msg: fmt.Sprintf("%+v: ", p) + fmt.Sprintf(format, a...), Replay: p})
				}
				watch := w.NewClient("watch", 1, AckAll)
				watch.Connect(ConnectOpts{ClientID: "watch", KeepAlive: 600})
				watch.Subscribe(1, 0, "pipe/#")
				w.Step()
				c := w.NewClient("c", 1, AckAll)
				stream := EncodeConnect(&packet.Connect{Header: &packet.Header{}, ClientId: []byte("pipelined"), KeepaliveTimer: 600, Clean: true})
				wantPings, wantSubs := 0, 0
				var wantPubs []int
				for k, f := range p.Follow {
					switch f {
					case "ping":
						stream = append(stream, 0xc0, 0)
						wantPings++
					case "sub":
						body := append([]byte{0, byte(10 + k)}, lp("own/#")...)
						body = append(body, 0)
						stream = append(stream, tmpl{"", 0x82, body, nil, -1}.bytes()...)
						wantSubs++
					default:
						n := map[string]int{"pub-100": 100, "pub-5k": 5000, "pub-8k": 8192}[f]
						payload := make([]byte, n)
						for j := range payload {
							payload[j] = byte('a' + (j+k)%26)
						}
						stream = append(stream, tmpl{"", 0x30, append(lp(fmt.Sprintf("pipe/%d", k)), payload...), nil, -1}.bytes()...)
						wantPubs = append(wantPubs, n)
					}
				}
				if p.Split > 0 && p.Split < len(stream) {
					c.SendRaw(stream[:p.Split])
					w.Step()
					c.SendRaw(stream[p.Split:])
				} else {
					c.SendRaw(stream)
				}
				w.Step()
				w.Idle(2 * time.Second)
				Observe(w, rep)
				if c.BrokerClosed() {
					viol("c11-ended-without-cause:pipelined", "the broker closed the connection of a client that sent CONNECT and %v without waiting for the CONNACK (inbox %s)", p.Follow, trunc(c.InboxDigest(), 200))
					return
				}
				if c.Count("CONNACK(0)") != 1 || c.Count("PINGRESP") != wantPings || c.Count("SUBACK") != wantSubs {
					viol("c11-pipelined-packet-lost", "sent CONNECT + %v: received %s, expected CONNACK, %d SUBACK, %d PINGRESP", p.Follow, trunc(c.InboxDigest(), 200), wantSubs, wantPings)
					return
				}
				var gotPubs []int
				for _, pk := range watch.Publishes() {
					gotPubs = append(gotPubs, len(pk.Payload))
				}
				// (as multisets: the publishes of one connection are handed to different publish workers and may be stored in
				// either order; C11 speaks of packets being lost, not of their order on different topics)
				sort.Ints(gotPubs)
				sortedWant := append([]int{}, wantPubs...)
				sort.Ints(sortedWant)
				wantPubs = sortedWant
				if fmt.Sprint(gotPubs) != fmt.Sprint(wantPubs) && !(len(gotPubs) == 0 && len(wantPubs) == 0) {
					viol("c11-pipelined-packet-lost", "sent CONNECT + %v: the watcher received publishes of sizes %v, expected %v", p.Follow, gotPubs, wantPubs)
					return
				}
				c.Ping()
				w.Step()
				if c.Count("PINGRESP") != wantPings+1 {
					viol("c11-ping-unanswered:pipelined", "the session is no longer served after the pipelined packets")
					return
				}
				MarkNontrivial(fmt.Sprint(p))
				rep.Nontrivial++
				rep.Sample(p)
			})
		},
		func(i int) any { return paths[i] },
		func(rep *vk.Report) {
			rep.Rule = "CONNECT followed at once (no wait for CONNACK) by 7 packet sequences over {PINGREQ, SUBSCRIBE, PUBLISH of 100 / 5000 / 8192 payload bytes}, in one write or cut after 30 / 4200 bytes: every packet is answered or delivered, the session stays served"
			rep.Floor("paths", 15, rep.Nontrivial)
		})
}

// TestC11PeersFailTogether: two other nodes, each hosting sessions with subscriptions, are declared failed a moment
// apart. Every trace of the sessions of BOTH must be gone from the survivor once the clean-up delays have passed.
func TestC11PeersFailTogether(t *testing.T) {
	type fp struct {
		GapMs int `json:"second_failure_after_ms"`
	}
	var paths []fp
	for _, g := range []int{0, 100, 1000, 2900, 3100, 6000} {
		paths = append(paths, fp{g})
	}
	RunPaths(t, "C11", "C11/peers-fail-together", "TestC11PeersFailTogether", len(paths), vk.Pick(4*time.Minute, 10*time.Minute),
		func(t *testing.T, i int, rep *vk.Report) {
			p := paths[i]
			RunBubble(t, fmt.Sprintf("p%d", i), func(t *testing.T) {
				w := NewWorld(t, 3)
				defer w.Close()
				for n := 2; n <= 3; n++ {
					c := w.NewClient(fmt.Sprintf("c%d", n), n, AckAll)
					c.Connect(ConnectOpts{ClientID: fmt.Sprintf("client-on-%d", n), KeepAlive: 600})
					c.Subscribe(1, 0, fmt.Sprintf("from/%d", n))
				}
				stay := w.NewClient("stay", 1, AckAll)
				stay.Connect(ConnectOpts{ClientID: "stay", KeepAlive: 600})
				stay.Subscribe(1, 0, "stay/#")
				w.Step()
				if len(w.Node(1).DState.SessionMetadatas().All()) != 3 {
					rep.HarnessError("node 1 does not list the three sessions before the failures")
					return
				}
				w.Leave(2)
				w.Idle(time.Duration(p.GapMs) * time.Millisecond)
				w.Leave(3)
				w.Idle(8 * time.Second)
				Observe(w, rep)
				v := w.Node(1).View()
				if len(v.Sessions) != 1 || len(v.Subscriptions) != 1 {
					rep.Violate(vk.Violation{Sig: "c11-session-record-left:peers-fail-together", Msg: fmt.Sprintf("%+v: nodes 2 and 3 failed %d ms apart; 8 s later the surviving node lists %s (only its own session and subscription should be left)", p, p.GapMs, v), Replay: p})
					return
				}
				stay.Ping()
				w.Step()
				if stay.BrokerClosed() || stay.Count("PINGRESP") != 1 {
					rep.Violate(vk.Violation{Sig: "c11-ended-without-cause:peers-fail-together", Msg: fmt.Sprintf("%+v: the survivor's own session is no longer served", p), Replay: p})
					return
				}
				MarkNontrivial(fmt.Sprint(p))
				rep.Nontrivial++
				rep.Sample(p)
			})
		},
		func(i int) any { return paths[i] },
		func(rep *vk.Report) {
			rep.Rule = "three nodes; nodes 2 and 3 (one session with a subscription each) are declared failed 0 / 0.1 / 1 / 2.9 / 3.1 / 6 s apart; 8 s after the second failure node 1 lists nothing of either"
			rep.Floor("paths", 6, rep.Nontrivial)
		})
}

// TestC11GracefulShutdown: the broker is stopped the orderly way (cmd/wasp calls Manager.DisconnectClients before it
// leaves the cluster) with 1 to 6 sessions connected, with and without wills, subscriptions of their own, on one node or
// next to a surviving node. Every one of the sessions must be ended: its connection closed, its registration, its record
// and its subscriptions gone from every node; a session that was not connected to the stopping node is left alone.
func TestC11GracefulShutdown(t *testing.T) {
	type gp struct {
		Nodes    int  `json:"nodes"`
		Sessions int  `json:"sessions_on_the_stopping_node"`
		Wills    bool `json:"with_wills"`
	}
	var paths []gp
	for _, n := range []int{1, 2} {
		for _, s := range []int{1, 2, 3, 6} {
			for _, wl := range []bool{false, true} {
				paths = append(paths, gp{n, s, wl})
			}
		}
	}
	RunPaths(t, "C11", "C11/graceful-shutdown", "TestC11GracefulShutdown", len(paths), vk.Pick(4*time.Minute, 10*time.Minute),
		func(t *testing.T, i int, rep *vk.Report) {
			p := paths[i]
			RunBubble(t, fmt.Sprintf("p%d", i), func(t *testing.T) {
				w := NewWorld(t, p.Nodes)
				defer w.Close()
				viol := func(sig, format string, a ...any) {
					rep.Violate(vk.Violation{Sig: sig, Msg: fmt.Sprintf("%+v: ", p) + fmt.Sprintf(format, a...), Replay: p})
				}
				var stay *Client
				if p.Nodes == 2 {
					stay = w.NewClient("stays", 2, AckAll)
					stay.Connect(ConnectOpts{ClientID: "stays", KeepAlive: 600})
					stay.Subscribe(1, 0, "will/#")
				}
				var cs []*Client
				for k := 0; k < p.Sessions; k++ {
					c := w.NewClient(fmt.Sprintf("c%d", k), 1, AckAll)
					o := ConnectOpts{ClientID: c.Name, KeepAlive: 600}
					if p.Wills {
						o.WillTopic, o.WillMsg = fmt.Sprintf("will/%d", k), fmt.Sprintf("gone-%d", k)
					}
					if c.Connect(o) != 0 {
						rep.HarnessError("connect failed")
						return
					}
					c.Subscribe(1, 1, fmt.Sprintf("own/%d/#", k))
					cs = append(cs, c)
					w.Step()
				}
				done := make(chan struct{})
				go func() {
					defer close(done)
					w.Node(1).Manager.DisconnectClients(w.Node(1).ctx)
				}()
				w.Idle(5 * time.Second)
				select {
				case <-done:
				default:
					viol("c11-graceful-shutdown-does-not-return", "DisconnectClients had not returned after 5 s")
					return
				}
				w.Idle(3 * time.Second)
				for k, c := range cs {
					if !c.BrokerClosed() {
						viol("c11-session-survives-shutdown", "the broker was stopped with %d sessions connected; the connection of session %d (%s) is still open", p.Sessions, k, c.SessionID)
						return
					}
					if w.Node(1).Local.Get(c.SessionID) != nil {
						viol("c11-session-survives-shutdown:registration", "session %d (%s) is still registered on the stopping node", k, c.SessionID)
						return
					}
				}
				for _, n := range w.Nodes {
					for _, s := range n.DState.SessionMetadatas().All() {
						if s.Peer == 1 {
							viol("c11-record-survives-shutdown", "node %d still lists session %s (client %s) of the stopped node", n.ID, s.SessionID, s.ClientID)
							return
						}
					}
					for _, s := range n.DState.Subscriptions().All() {
						if s.Peer == 1 {
							viol("c11-subscription-survives-shutdown", "node %d still lists subscription %s %s of the stopped node", n.ID, s.SessionID, s.Pattern)
							return
						}
					}
				}
				if stay != nil {
					if stay.BrokerClosed() || w.Node(2).Local.Get(stay.SessionID) == nil {
						viol("c11-ended-without-cause:shutdown-of-another-node", "a session of node 2 was ended by the orderly stop of node 1")
						return
					}
					// (how often a will is published when the BROKER stops is not among the causes C13 speaks of: the stop path tears a
					// session down twice, once from DisconnectClients and once from its connection worker, and publishes the will
					// both times; recorded in DESIGN.md as an observation outside the properties, not checked here)
				}
				Observe(w, rep)
				MarkNontrivial(fmt.Sprint(p))
				rep.Nontrivial++
				rep.Sample(p)
			})
		},
		func(i int) any { return paths[i] },
		func(rep *vk.Report) {
			rep.Rule = "Manager.DisconnectClients (the orderly stop of cmd/wasp) with 1 / 2 / 3 / 6 sessions connected, with and without wills, alone or next to a surviving node: it returns, every connection is closed, no registration, record or subscription of the stopped node is left on any node, the survivor's session is untouched"
			rep.Floor("paths", int64(len(paths)), rep.Nontrivial)
		})
}

// TestC11SlowAcks: a client that stays within the protocol and its keep-alive but answers late: a QoS 1 / QoS 2 delivery
// is answered only after 0, 4.5 or 9 s, by which time the broker has sent the packet again once or twice, and the client -
// as a compliant receiver does - answers EVERY copy it received (PUBACK / PUBREC per PUBLISH copy, PUBCOMP per PUBREL
// copy). None of these answers is a cause to end the session: it is alive after each of them and its exchange completes.
func TestC11SlowAcks(t *testing.T) {
	type ap struct {
		Qos     int32 `json:"qos"`
		FirstMs int   `json:"silence_before_answering_publish_ms"`
		RelMs   int   `json:"silence_before_answering_pubrel_ms"`
	}
	var paths []ap
	for _, f := range []int{0, 4500, 9000} {
		paths = append(paths, ap{1, f, 0})
		for _, r := range []int{0, 4500} {
			paths = append(paths, ap{2, f, r})
		}
	}
	RunPaths(t, "C11", "C11/late-answers-to-every-copy", "TestC11SlowAcks", len(paths), vk.Pick(4*time.Minute, 10*time.Minute),
		func(t *testing.T, i int, rep *vk.Report) {
			p := paths[i]
			RunBubble(t, fmt.Sprintf("p%d", i), func(t *testing.T) {
				w := NewWorld(t, 1)
				defer w.Close()
				viol := func(sig, format string, a ...any) {
					rep.Violate(vk.Violation{Sig: sig, Msg: fmt.Sprintf("%+v: ", p) + fmt.Sprintf(format, a...), Replay: p})
				}
				c := w.NewClient("slow", 1, AckNone)
				if c.Connect(ConnectOpts{ClientID: "slow", KeepAlive: 60, WillTopic: "will/slow", WillMsg: "gone"}) != 0 {
					rep.HarnessError("connect failed")
					return
				}
				c.Subscribe(1, p.Qos, "t/#")
				pub := w.NewClient("pub", 1, AckAll)
				pub.Connect(ConnectOpts{ClientID: "pub", KeepAlive: 600})
				pub.Subscribe(1, 0, "will/#")
				w.Step()
				pub.Publish("t/x", "m", 1, false, 3)
				w.Step()
				pings := 0
				alive := func(after string) bool {
					c.Ping()
					pings++
					w.Step()
					if c.BrokerClosed() || c.Count("PINGRESP") != pings || w.Node(1).Local.Get(c.SessionID) == nil {
						viol("c11-ended-without-cause:late-answers", "after %s the session was ended (connection closed by the broker: %v, registered: %v): the client answered every copy it was sent, within its keep-alive; inbox %s", after, c.BrokerClosed(), w.Node(1).Local.Get(c.SessionID) != nil, trunc(c.InboxDigest(), 300))
						return false
					}
					return true
				}
				w.Idle(time.Duration(p.FirstMs) * time.Millisecond)
				var id int32
				copies := 0
				for _, pk := range c.Publishes() {
					if string(pk.Topic) == "t/x" {
						copies++
						id = pk.MessageId
					}
				}
				if copies == 0 {
					rep.HarnessError("the delivery never arrived")
					return
				}
				for k := 0; k < copies; k++ {
					if p.Qos == 1 {
						c.Send(&packet.PubAck{Header: &packet.Header{}, MessageId: id})
					} else {
						c.Send(&packet.PubRec{Header: &packet.Header{}, MessageId: id})
					}
					w.Step()
					if !alive(fmt.Sprintf("answer %d of %d to the copies of the PUBLISH", k+1, copies)) {
						return
					}
				}
				if p.Qos == 2 {
					w.Idle(time.Duration(p.RelMs) * time.Millisecond)
					rels := c.Count(fmt.Sprintf("PUBREL(%d)", id))
					if rels == 0 {
						viol("c11-late-answers-no-pubrel", "no PUBREL after PUBREC; inbox %s", trunc(c.InboxDigest(), 300))
						return
					}
					for k := 0; k < rels; k++ {
						c.Send(&packet.PubComp{Header: &packet.Header{}, MessageId: id})
						w.Step()
						if !alive(fmt.Sprintf("PUBCOMP %d of %d", k+1, rels)) {
							return
						}
					}
				}
				w.Idle(8 * time.Second)
				if !alive("8 s of quiet after the exchange completed") {
					return
				}
				for _, pk := range pub.Publishes() {
					if string(pk.Topic) == "will/slow" {
						viol("c11-ended-without-cause:late-answers", "the will of the session was published although it never ended")
						return
					}
				}
				if copies > 1 {
					MarkNontrivial(fmt.Sprint(p))
					rep.Nontrivial++
				}
				Observe(w, rep)
				rep.Sample(p)
			})
		},
		func(i int) any { return paths[i] },
		func(rep *vk.Report) {
			rep.Rule = "a QoS 1 / QoS 2 delivery answered after 0 / 4.5 / 9 s (1-3 copies sent by then), one answer per copy received, PUBCOMP per PUBREL copy after 0 / 4.5 s; the session is alive (registered, PINGRESP) after every answer and 8 s later, its will is not published; non-trivial = paths with more than one copy"
			rep.Floor("paths_with_retransmitted_copies", 4, rep.Nontrivial)
		})
}
