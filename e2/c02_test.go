package e2

import (
	"fmt"
	"strings"
	"testing"
	"time"

	"github.com/vx-labs/mqtt-protocol/packet"

	"verif/internal/vk"
)

// C02: an acknowledged publish reaches every connected matching subscriber at least once, from
// the first log offset on and across segment rolls / truncation.

type c02path struct {
	Prefill int   `json:"prefill"`
	State   int64 `json:"consumer_state"` // -1 absent
	Seq     []int `json:"seq"`            // publish events: publisher*3+qos
	Size    int   `json:"payload_size"`
	FailAt  int   `json:"log_write_fails_during_event"` // -1: never
	// LateRelease: QoS 2 publishers answer PUBREC with PUBREL only 6 s later (a slow link): whether the broker still
	// completes the handshake then is its choice, but a PUBCOMP is an acknowledgement like any other
	LateRelease bool `json:"pubrel_sent_6s_after_pubrec,omitempty"`
	// ReleaseAtEnd: QoS 2 publishers send their PUBRELs only after the whole publish sequence (other packets of the same
	// client are processed while the message waits in the broker)
	ReleaseAtEnd bool `json:"pubrels_sent_after_the_sequence,omitempty"`
	// SlowConnack: the write of the subscribers' CONNACK returns 1 s after the bytes reached the client (the client
	// subscribes as soon as it has read them)
	SlowConnack bool `json:"connack_write_returns_late,omitempty"`
	// Dev: exactly one answer of the environment comes late (see Deviation): the k-th write of the broker to a client, or
	// the k-th log append, returns 1.5 s after taking effect
	Dev *Deviation `json:"one_late_answer,omitempty"`
	// Retained: every publish carries the retain flag; EmptyAt (>= 0): that publish of the sequence has an empty payload
	// (it clears the retained message: connected subscribers are still owed the publish itself)
	Retained bool `json:"retain_flag,omitempty"`
	EmptyAt  int  `json:"empty_payload_at,omitempty"`
}

func c02paths() []c02path {
	var out []c02path
	type variant struct {
		p int
		s int64
	}
	// {0, 0}: a node that was started and stopped before it stored anything (its consumer state file exists and holds 0)
	variants := []variant{{0, -1}, {0, 0}}
	ps := []int{1, 9, 10, 11, 24, 25, 26, 499, 500, 501, 999, 1000, 1499, 1500, 1501, 1999, 2000, 2001, 2300}
	for _, p := range ps {
		variants = append(variants, variant{p, -1}, variant{p, int64(p - 1)})
	}
	seqs := func(d int) [][]int {
		res := [][]int{{}}
		for i := 0; i < d; i++ {
			var next [][]int
			for _, s := range res {
				for e := 0; e < 6; e++ {
					next = append(next, append(append([]int{}, s...), e))
				}
			}
			res = next
		}
		return res
	}
	small := map[int]bool{0: true, 1: true, 10: true, 500: true}
	_ = small
	for _, v := range variants {
		depths := []int{1, 2}
		if vk.Thorough() || small[v.p] {
			depths = append(depths, 3)
		}
		if vk.Thorough() && small[v.p] {
			depths = append(depths, 4)
		}
		for _, d := range depths {
			for _, s := range seqs(d) {
				out = append(out, c02path{v.p, v.s, s, 4, -1, false, false, false, nil, false, 0})
			}
		}
	}
	// a refused log write during one event: what is acknowledged must still be delivered (nothing may be
	// acknowledged that the log did not take)
	for _, d := range []int{1, 2, 3} {
		for _, s := range seqs(d) {
			for k := 0; k < d; k++ {
				if s[k]%3 != 0 { // QoS 0 is never acknowledged
					out = append(out, c02path{10, 9, s, 4, k, false, false, false, nil, false, 0})
				}
			}
		}
	}
	for _, d := range []int{1, 2} {
		for _, s := range seqs(d) {
			q2 := false
			for _, e := range s {
				if e%3 == 2 {
					q2 = true
				}
			}
			if q2 {
				out = append(out, c02path{Prefill: 10, State: 9, Seq: s, Size: 4, FailAt: -1, LateRelease: true})
				out = append(out, c02path{Prefill: 10, State: 9, Seq: s, Size: 4, FailAt: -1, ReleaseAtEnd: true})
			}
			out = append(out, c02path{Prefill: 10, State: 9, Seq: s, Size: 4, FailAt: -1, SlowConnack: true})
		}
	}
	for _, d := range []int{1, 2} {
		for _, s := range seqs(d) {
			out = append(out, c02path{Prefill: 10, State: 9, Seq: s, Size: 4, FailAt: -1, Retained: true, EmptyAt: -1})
			for k := 0; k < d; k++ {
				out = append(out, c02path{Prefill: 10, State: 9, Seq: s, Size: 4, FailAt: -1, Retained: true, EmptyAt: k})
			}
		}
	}
	// one late answer: every depth-2 sequence x every broker-to-client write (the first 30: connection set-up of the
	// clients, then the deliveries and acknowledgements) and every log append of the run
	for _, s := range seqs(2) {
		for k := 1; k <= 30; k++ {
			out = append(out, c02path{Prefill: 10, State: 9, Seq: s, Size: 4, FailAt: -1, Dev: &Deviation{"client-write", k, 1500 * time.Millisecond}})
		}
		for k := 1; k <= 3; k++ {
			out = append(out, c02path{Prefill: 10, State: 9, Seq: s, Size: 4, FailAt: -1, Dev: &Deviation{"log-append", k, 1500 * time.Millisecond}})
		}
	}
	// payload sizes at the remaining-length edges of the encoder, depth <= 2
	for _, size := range []int{1, 127, 128, 16383, 16384} {
		for _, d := range []int{1, 2} {
			for _, s := range seqs(d) {
				out = append(out, c02path{0, -1, s, size, -1, false, false, false, nil, false, 0}, c02path{10, 9, s, size, -1, false, false, false, nil, false, 0})
			}
		}
	}
	// boundary sweep: 3 QoS 1 publishes after P stored messages (restarted node: state at P-1)
	for p := 1; p <= 2600; p++ {
		edge := false
		for _, m := range []int{10, 500, 1000} {
			r := p % m
			if r <= 2 || r >= m-2 {
				edge = m != 10 || vk.Thorough() || r == 0
			}
		}
		if vk.Thorough() || p%7 == 0 || edge {
			out = append(out, c02path{p, int64(p - 1), []int{1, 1, 1}, 4, -1, false, false, false, nil, false, 0})
			if vk.Thorough() && p%10 == 0 {
				out = append(out, c02path{p, -1, []int{1, 1, 1}, 4, -1, false, false, false, nil, false, 0})
			}
		}
	}
	return out
}

func TestC02Delivery(t *testing.T) {
	paths := c02paths()
	RunPaths(t, "C02", "C02/acknowledged-publish-delivered", "TestC02Delivery", len(paths), vk.Pick(8*time.Minute, 40*time.Minute),
		func(t *testing.T, i int, rep *vk.Report) {
			p := paths[i]
			RunBubble(t, fmt.Sprintf("p%d", i), func(t *testing.T) {
				nodes := 1
				if p.FailAt >= 0 {
					nodes = 2 // a second destination node, so that a refused local write is not the only outcome of the distribution
				}
				w := NewWorld(t, nodes, NodeOpts{Prefill: p.Prefill, PrefillState: p.State})
				defer w.Close()
				w.SetDeviation(p.Dev)
				w.Idle(time.Second) // let the consumer work through a pre-filled log
				// a subscription whose session is not connected (created through the RPC API) sits first in the filter's list
				w.Node(1).DState.Subscriptions().CreateFrom("ghost", 1, []byte("_default/t/#"), 1)
				if nodes == 2 {
					r := w.NewClient("sub-remote", 2, AckAll)
					r.Connect(ConnectOpts{ClientID: "sub-remote", KeepAlive: 60})
					r.Subscribe(1, 1, "t/#")
				}
				subs := []*Client{}
				for q := int32(0); q <= 2; q++ {
					c := w.NewClient(fmt.Sprintf("sub-q%d", q), 1, AckAll)
					if p.SlowConnack {
						c.SlowNextBrokerWrite(time.Second)
					}
					if c.Connect(ConnectOpts{ClientID: c.Name, KeepAlive: 60}) != 0 {
						rep.HarnessError("subscriber could not connect")
						return
					}
					c.Subscribe(1, q, "t/#")
					subs = append(subs, c)
				}
				// a subscriber that reached its subscription through subscribe, unsubscribe, subscribe again (QoS 0 each time)
				{
					c := w.NewClient("sub-again", 1, AckAll)
					if c.Connect(ConnectOpts{ClientID: c.Name, KeepAlive: 60}) != 0 {
						rep.HarnessError("subscriber could not connect")
						return
					}
					c.Subscribe(1, 0, "t/#")
					w.Step()
					c.Unsubscribe(2, "t/#")
					w.Step()
					c.Subscribe(3, 0, "t/#")
					subs = append(subs, c)
				}
				// a subscriber that has QoS 2 publishes of its own under way (PUBREC received, PUBREL not sent yet) under the
				// identifiers the broker is about to use for its deliveries: the two directions number independently
				{
					c := w.NewClient("sub-busy", 1, AckNone)
					if c.Connect(ConnectOpts{ClientID: c.Name, KeepAlive: 60}) != 0 {
						rep.HarnessError("subscriber could not connect")
						return
					}
					c.Subscribe(1, 1, "t/#")
					w.Step()
					for id := int32(1); id <= 8; id++ {
						c.Send(&packet.Publish{Header: &packet.Header{Qos: 2}, Topic: []byte("elsewhere/x"), Payload: []byte("own"), MessageId: id})
					}
					subs = append(subs, c)
				}
				pubs := []*Client{}
				policy := AckAll
				if p.LateRelease || p.ReleaseAtEnd {
					policy = AckNone
				}
				for k := 0; k < 2; k++ {
					c := w.NewClient(fmt.Sprintf("pub%d", k+1), 1, policy)
					if c.Connect(ConnectOpts{ClientID: c.Name, KeepAlive: 60}) != 0 {
						rep.HarnessError("publisher could not connect")
						return
					}
					pubs = append(pubs, c)
				}
				w.Step()
				type sent struct {
					topic, payload string
					qos            int32
					pub            *Client
					mid            int32
				}
				var all []sent
				for k, e := range p.Seq {
					pubc := pubs[e/3]
					q := int32(e % 3)
					payload := fmt.Sprintf("m%d-", k)
					if p.Size > len(payload) {
						payload += strings.Repeat("x", p.Size-len(payload))
					}
					s := sent{topic: fmt.Sprintf("t/%d", k), payload: payload, qos: q, pub: pubc, mid: int32(10 + k)}
					if p.Retained {
						s.topic = fmt.Sprintf("t/$%d", k) // (a level beginning with '$' below the first is an ordinary level)
					}
					if k == p.FailAt {
						w.FailLog(1, true)
					}
					if p.Retained && p.EmptyAt == k {
						s.payload = ""
					}
					pubc.Publish(s.topic, s.payload, q, p.Retained, s.mid)
					all = append(all, s)
					w.Step()
					if k == p.FailAt {
						w.Idle(time.Second) // QoS 2: PUBREC -> PUBREL -> store attempt
						w.FailLog(1, false)
					}
					if p.LateRelease && q == 2 {
						w.Idle(6 * time.Second)
						if pubc.Has(fmt.Sprintf("PUBREC(%d)", s.mid)) {
							pubc.Send(&packet.PubRel{Header: &packet.Header{}, MessageId: s.mid})
							w.Step()
						}
					}
					Observe(w, rep)
				}
				if p.ReleaseAtEnd {
					for _, s := range all {
						if s.qos == 2 && s.pub.Has(fmt.Sprintf("PUBREC(%d)", s.mid)) {
							s.pub.Send(&packet.PubRel{Header: &packet.Header{}, MessageId: s.mid})
							w.Step()
						}
					}
				}
				w.Idle(30 * time.Second)
				Observe(w, rep)
				acked := 0
				for _, s := range all {
					ack := ""
					switch s.qos {
					case 1:
						ack = fmt.Sprintf("PUBACK(%d)", s.mid)
					case 2:
						ack = fmt.Sprintf("PUBCOMP(%d)", s.mid)
					default:
						continue
					}
					if !s.pub.Has(ack) {
						continue
					}
					acked++
					for _, sub := range subs {
						found := false
						for _, pk := range sub.Publishes() {
							if string(pk.Topic) == s.topic && string(pk.Payload) == s.payload {
								found = true
							}
						}
						if !found {
							first := ""
							if p.Prefill == 0 && s.topic == "t/0" {
								first = ":first-offset"
							}
							short := s.payload
							if len(short) > 12 {
								short = short[:12] + "..."
							}
							rep.Violate(vk.Violation{Sig: "c02-acknowledged-publish-lost" + first,
								Msg:    fmt.Sprintf("log prefilled with %d entries (consumer state %d): %s got %s for %s=%s (QoS %d) but connected subscriber %s never received it within 30 s; inbox %s", p.Prefill, p.State, s.pub.Name, ack, s.topic, short, s.qos, sub.Name, trunc(sub.InboxDigest(), 300)),
								Replay: p})
						}
					}
				}
				for _, sub := range subs {
					if sub.BrokerClosed() {
						rep.Violate(vk.Violation{Sig: "c02-subscriber-disconnected", Msg: fmt.Sprintf("subscriber %s was disconnected during a publish-only script", sub.Name), Replay: p})
					}
					for _, pk := range sub.Publishes() {
						if pk.Header.Qos > 0 && (pk.MessageId < 1 || pk.MessageId > 65535) {
							rep.Violate(vk.Violation{Sig: "c02-identifier-out-of-range", Msg: fmt.Sprintf("outbound PUBLISH with identifier %d", pk.MessageId), Replay: p})
						}
					}
				}
				for _, ai := range w.Node(1).AckInserts {
					if strings.Contains(ai.Err, "duplicate") {
						rep.Violate(vk.Violation{Sig: "c02-duplicate-identifier-in-flight", Msg: fmt.Sprintf("in-flight registration rejected as duplicate: session %s id %d", ai.Session, ai.ID), Replay: p})
					}
				}
				if p.Dev != nil {
					if w.DeviationFired() {
						rep.Extra["runs_with_one_late_answer"] = asInt(rep.Extra["runs_with_one_late_answer"]) + 1
					} else {
						rep.Extra["late_answer_index_beyond_the_run"] = asInt(rep.Extra["late_answer_index_beyond_the_run"]) + 1
					}
				}
				if acked > 0 {
					MarkNontrivial(fmt.Sprintf("%d/%d/%v/%d", p.Prefill, p.State, p.Seq, p.Size))
					rep.Nontrivial++
				}
				if i%97 == 0 {
					rep.Sample(p)
				}
			})
		},
		func(i int) any { return paths[i] },
		func(rep *vk.Report) {
			rep.Rule = "paths = (log prefill P, consumer state absent | P-1, publish sequence over {p1,p2} x QoS{0,1,2}, payload size); states = distinct canonical world observations after each event; non-trivial = paths with at least one acknowledged QoS>0 publish"
			rep.Bounds["log_variants"] = "empty log; P in {1,9,10,11,24,25,26,499,500,501,999,1000,1499,1500,1501,1999,2000,2001,2300} x {no consumer state, state at P-1}"
			rep.Bounds["depth"] = vk.Pick("1-2 on every variant, 3 on P in {0,1,10,500}", "1-3 on every variant, 4 on P in {0,1,10,500}")
			rep.Bounds["sweep"] = vk.Pick("P in 1..2600: every 7th plus segment/truncation edges", "every P in 1..2600")
			rep.Bounds["horizon"] = "30 s virtual"
			rep.Floor("nontrivial", 50, rep.Nontrivial)
		})
}

func trunc(s string, n int) string {
	if len(s) > n {
		return s[:n] + "..."
	}
	return s
}

// TestC02Stalled: a subscriber that stops reading for a while (back-pressure) but stays connected
// must still receive every acknowledged publish once it reads again, also when the log rolls
// segments and truncates in the meantime.
type c02stall struct {
	Before int   `json:"published_before_stall"`
	During int   `json:"published_during_stall"`
	SubQos int32 `json:"subscriber_qos"`
}

func TestC02Stalled(t *testing.T) {
	var paths []c02stall
	for _, b := range vk.Pick([]int{1200, 1699}, []int{600, 1200, 1450, 1699, 1990}) {
		for _, d := range vk.Pick([]int{900}, []int{400, 900, 1300}) {
			// subscriber QoS 0 only: with QoS > 0 the expiry goroutine retransmits into the stalled net.Pipe
			// while the writer goroutine is blocked in it; net.Pipe serialises writers with a sync.Mutex,
			// which testing/synctest does not treat as durably blocked, so quiescence could not be detected
			for _, q := range []int32{0} {
				paths = append(paths, c02stall{b, d, q})
			}
		}
	}
	paths = append(paths, c02stall{600, 5600, 0}) // more than ten segments behind
	RunPaths(t, "C02", "C02/stalled-subscriber", "TestC02Stalled", len(paths), vk.Pick(8*time.Minute, 30*time.Minute),
		func(t *testing.T, i int, rep *vk.Report) {
			p := paths[i]
			RunBubble(t, fmt.Sprintf("p%d", i), func(t *testing.T) {
				w := NewWorld(t, 1)
				defer w.Close()
				sub := w.NewClient("sub", 1, AckAll)
				sub.Connect(ConnectOpts{ClientID: "sub", KeepAlive: 6000})
				sub.Subscribe(1, p.SubQos, "t/#")
				pub := w.NewClient("pub", 1, AckAll)
				pub.Connect(ConnectOpts{ClientID: "pub", KeepAlive: 6000})
				w.Step()
				n := 0
				send := func(k int) {
					for j := 0; j < k; j++ {
						pub.Publish("t/x", fmt.Sprintf("m%d", n), 1, false, int32(1+n%60000))
						n++
						if n%50 == 0 {
							w.Quiesce()
						}
					}
					w.Idle(5 * time.Second)
				}
				send(p.Before)
				sub.Pause()
				send(p.During)
				Observe(w, rep)
				sub.Resume()
				w.Idle(60 * time.Second)
				Observe(w, rep)
				acked := map[int32]int{}
				for _, r := range pub.Received() {
					if a, ok := r.Pkt.(*packet.PubAck); ok {
						acked[a.MessageId]++
					}
				}
				got := map[string]bool{}
				for _, pk := range sub.Publishes() {
					got[string(pk.Payload)] = true
				}
				missing, ackedN := 0, 0
				first := ""
				for k := 0; k < n; k++ {
					if acked[int32(1+k%60000)] == 0 {
						continue
					}
					ackedN++
					if !got[fmt.Sprintf("m%d", k)] {
						missing++
						if first == "" {
							first = fmt.Sprintf("m%d", k)
						}
					}
				}
				if sub.BrokerClosed() {
					rep.Violate(vk.Violation{Sig: "c02-stalled-subscriber-disconnected", Msg: fmt.Sprintf("%+v: the subscriber was disconnected", p), Replay: p})
					return
				}
				if missing > 0 {
					rep.Violate(vk.Violation{Sig: "c02-acknowledged-publish-lost:stalled-subscriber", Msg: fmt.Sprintf("%+v: %d of %d acknowledged publishes never reached the subscriber that stalled and stayed connected (first missing %s)", p, missing, ackedN, first), Replay: p})
					return
				}
				if ackedN > 0 {
					MarkNontrivial(fmt.Sprintf("%+v", p))
					rep.Nontrivial++
				}
				rep.Sample(p)
			})
		},
		func(i int) any { return paths[i] },
		func(rep *vk.Report) {
			rep.Rule = "paths = (messages published before the subscriber stops reading, messages published while it does not read, subscriber QoS); the log crosses segment (500) and truncation (2000) boundaries meanwhile; after it reads again every acknowledged publish must arrive within 60 s"
			rep.Floor("paths", 2, rep.Nontrivial)
		})
}
