// Copyright 2010 The Go Authors. All rights reserved.
// Use of this source code is governed by a BSD-style
// license that can be found in the LICENSE file.

// This file is net/pipe.go of the Go distribution (go1.26.8) with two changes: the mutex that serialises writers is
// channel-based (verif/dsync), so that a second goroutine writing to a connection whose reader has stalled is durably
// blocked for testing/synctest (with sync.Mutex the bubble's clock could never advance again); and the error values are
// those of package net / os. Everything else is the original algorithm: synchronous, unbuffered, with deadlines.
package e2

import (
	"io"
	"net"
	"os"
	"sync"
	"time"
	"verif/dsync"
)

// pipeDeadline is an abstraction for handling timeouts.
type pipeDeadline struct {
	mu     sync.Mutex // Guards timer and cancel
	timer  *time.Timer
	cancel chan struct{} // Must be non-nil
}

func makePipeDeadline() pipeDeadline {
	return pipeDeadline{cancel: make(chan struct{})}
}

// set sets the point in time when the deadline will time out.
// A timeout event is signaled by closing the channel returned by waiter.
// Once a timeout has occurred, the deadline can be refreshed by specifying a
// t value in the future.
//
// A zero value for t prevents timeout.
func (d *pipeDeadline) set(t time.Time) {
	d.mu.Lock()
	defer d.mu.Unlock()

	if d.timer != nil && !d.timer.Stop() {
		<-d.cancel // Wait for the timer callback to finish and close cancel
	}
	d.timer = nil

	// Time is zero, then there is no deadline.
	closed := isClosedChan(d.cancel)
	if t.IsZero() {
		if closed {
			d.cancel = make(chan struct{})
		}
		return
	}

	// Time in the future, setup a timer to cancel in the future.
	if dur := time.Until(t); dur > 0 {
		if closed {
			d.cancel = make(chan struct{})
		}
		d.timer = time.AfterFunc(dur, func() {
			close(d.cancel)
		})
		return
	}

	// Time in the past, so close immediately.
	if !closed {
		close(d.cancel)
	}
}

// wait returns a channel that is closed when the deadline is exceeded.
func (d *pipeDeadline) wait() chan struct{} {
	d.mu.Lock()
	defer d.mu.Unlock()
	return d.cancel
}

func isClosedChan(c <-chan struct{}) bool {
	select {
	case <-c:
		return true
	default:
		return false
	}
}

type pipeAddr struct{}

func (pipeAddr) Network() string { return "pipe" }
func (pipeAddr) String() string  { return "pipe" }

type pipe struct {
	wrMu dsync.Mutex // Serialize Write operations (channel-based, see the head of the file)

	// Used by local Read to interact with remote Write.
	// Successful receive on rdRx is always followed by send on rdTx.
	rdRx <-chan []byte
	rdTx chan<- int

	// Used by local Write to interact with remote Read.
	// Successful send on wrTx is always followed by receive on wrRx.
	wrTx chan<- []byte
	wrRx <-chan int

	once       sync.Once // Protects closing localDone
	localDone  chan struct{}
	remoteDone <-chan struct{}

	readDeadline  pipeDeadline
	writeDeadline pipeDeadline
}

// Pipe creates a synchronous, in-memory, full duplex
// network connection; both ends implement the [Conn] interface.
// Reads on one end are matched with writes on the other,
// copying data directly between the two; there is no internal
// buffering.
func memPipe() (net.Conn, net.Conn) {
	cb1 := make(chan []byte)
	cb2 := make(chan []byte)
	cn1 := make(chan int)
	cn2 := make(chan int)
	done1 := make(chan struct{})
	done2 := make(chan struct{})

	p1 := &pipe{
		rdRx: cb1, rdTx: cn1,
		wrTx: cb2, wrRx: cn2,
		localDone: done1, remoteDone: done2,
		readDeadline:  makePipeDeadline(),
		writeDeadline: makePipeDeadline(),
	}
	p2 := &pipe{
		rdRx: cb2, rdTx: cn2,
		wrTx: cb1, wrRx: cn1,
		localDone: done2, remoteDone: done1,
		readDeadline:  makePipeDeadline(),
		writeDeadline: makePipeDeadline(),
	}
	return p1, p2
}

func (*pipe) LocalAddr() net.Addr  { return pipeAddr{} }
func (*pipe) RemoteAddr() net.Addr { return pipeAddr{} }

func (p *pipe) Read(b []byte) (int, error) {
	n, err := p.read(b)
	if err != nil && err != io.EOF && err != io.ErrClosedPipe {
		err = &net.OpError{Op: "read", Net: "pipe", Err: err}
	}
	return n, err
}

func (p *pipe) read(b []byte) (n int, err error) {
	switch {
	case isClosedChan(p.localDone):
		return 0, io.ErrClosedPipe
	case isClosedChan(p.remoteDone):
		return 0, io.EOF
	case isClosedChan(p.readDeadline.wait()):
		return 0, os.ErrDeadlineExceeded
	}

	select {
	case bw := <-p.rdRx:
		nr := copy(b, bw)
		p.rdTx <- nr
		return nr, nil
	case <-p.localDone:
		return 0, io.ErrClosedPipe
	case <-p.remoteDone:
		return 0, io.EOF
	case <-p.readDeadline.wait():
		return 0, os.ErrDeadlineExceeded
	}
}

func (p *pipe) Write(b []byte) (int, error) {
	n, err := p.write(b)
	if err != nil && err != io.ErrClosedPipe {
		err = &net.OpError{Op: "write", Net: "pipe", Err: err}
	}
	return n, err
}

func (p *pipe) write(b []byte) (n int, err error) {
	switch {
	case isClosedChan(p.localDone):
		return 0, io.ErrClosedPipe
	case isClosedChan(p.remoteDone):
		return 0, io.ErrClosedPipe
	case isClosedChan(p.writeDeadline.wait()):
		return 0, os.ErrDeadlineExceeded
	}

	p.wrMu.Lock() // Ensure entirety of b is written together
	defer p.wrMu.Unlock()
	for once := true; once || len(b) > 0; once = false {
		select {
		case p.wrTx <- b:
			nw := <-p.wrRx
			b = b[nw:]
			n += nw
		case <-p.localDone:
			return n, io.ErrClosedPipe
		case <-p.remoteDone:
			return n, io.ErrClosedPipe
		case <-p.writeDeadline.wait():
			return n, os.ErrDeadlineExceeded
		}
	}
	return n, nil
}

func (p *pipe) SetDeadline(t time.Time) error {
	if isClosedChan(p.localDone) || isClosedChan(p.remoteDone) {
		return io.ErrClosedPipe
	}
	p.readDeadline.set(t)
	p.writeDeadline.set(t)
	return nil
}

func (p *pipe) SetReadDeadline(t time.Time) error {
	if isClosedChan(p.localDone) || isClosedChan(p.remoteDone) {
		return io.ErrClosedPipe
	}
	p.readDeadline.set(t)
	return nil
}

func (p *pipe) SetWriteDeadline(t time.Time) error {
	if isClosedChan(p.localDone) || isClosedChan(p.remoteDone) {
		return io.ErrClosedPipe
	}
	p.writeDeadline.set(t)
	return nil
}

func (p *pipe) Close() error {
	p.once.Do(func() { close(p.localDone) })
	return nil
}
