// Package e2 is the `brokermc` engine: a complete 1-3 node wasp broker wired in-process like
// cmd/wasp/main.go inside a testing/synctest bubble (virtual time, exact quiescence), driven by
// enumerated sequences of environment events.
package e2

import (
	"context"
	"crypto/tls"
	"errors"
	"fmt"
	"github.com/golang/protobuf/proto"
	"github.com/vx-labs/wasp/v4/wasp/api"
	"net"
	"os"
	"path/filepath"
	"sort"
	"strings"
	"sync"
	"sync/atomic"
	"testing"
	"testing/synctest"
	"time"

	"github.com/hashicorp/memberlist"
	"github.com/vx-labs/commitlog/stream"
	"github.com/vx-labs/mqtt-protocol/packet"
	"github.com/vx-labs/wasp/v4/rpc"
	"github.com/vx-labs/wasp/v4/wasp"
	"github.com/vx-labs/wasp/v4/wasp/ack"
	"github.com/vx-labs/wasp/v4/wasp/audit"
	"github.com/vx-labs/wasp/v4/wasp/auth"
	"github.com/vx-labs/wasp/v4/wasp/distributed"
	"github.com/vx-labs/wasp/v4/wasp/messages"
	"github.com/vx-labs/wasp/v4/wasp/taps"
	"github.com/vx-labs/wasp/v4/wasp/transport"
	"go.uber.org/zap"
	"google.golang.org/grpc"
	"google.golang.org/grpc/codes"
	"google.golang.org/grpc/credentials"
	"google.golang.org/grpc/status"
	"google.golang.org/grpc/test/bufconn"
)

// Settle is the virtual time advanced after every event: longer than the commit-log poll (100 ms)
// plus the id-pool retry (100 ms).
const Settle = 300 * time.Millisecond

// ---- message log proxy: records appends, injects failures ----

type LogEvent struct {
	Seq     int64
	Node    uint64
	Topic   string
	Payload string
	OK      bool
}

type logProxy struct {
	w     *World
	node  *Node
	inner messages.Log
	fail  atomic.Bool
	slow  atomic.Int64 // virtual delay (ns) before every append: a node that answers late rather than not at all
}

func (l *logProxy) Close() error { return l.inner.Close() }
func (l *logProxy) Append(p *packet.Publish) error {
	var err error
	if d := l.slow.Load(); d > 0 {
		time.Sleep(time.Duration(d))
	}
	if l.fail.Load() {
		err = errors.New("injected log write failure")
	} else {
		err = l.inner.Append(p)
	}
	l.w.mu.Lock()
	l.w.LogEvents = append(l.w.LogEvents, LogEvent{Seq: l.w.nextSeq(), Node: l.node.ID, Topic: string(p.Topic), Payload: string(p.Payload), OK: err == nil})
	l.w.mu.Unlock()
	l.w.deviationPoint("log-append")
	return err
}
func (l *logProxy) Get(offset uint64) (*packet.Publish, error) { return l.inner.Get(offset) }
func (l *logProxy) Consume(ctx context.Context, name string, f func(uint64, *packet.Publish) error) error {
	return l.inner.Consume(ctx, name, func(off uint64, p *packet.Publish) error {
		l.w.mu.Lock()
		l.node.Consumed = append(l.node.Consumed, off)
		l.w.mu.Unlock()
		return f(off, p)
	})
}
func (l *logProxy) Stream(ctx context.Context, consumer stream.Consumer, f func(*packet.Publish) error) error {
	return l.inner.Stream(ctx, consumer, f)
}

// ---- ack queue proxy: records registrations with the deadline the implementation chose ----

type AckInsert struct {
	Seq      int64
	At       time.Time
	Session  string
	Type     byte
	ID       int32
	Deadline time.Time
	Err      string
}

type ackProxy struct {
	w     *World
	node  *Node
	inner ack.Queue
	// swapNext: the next registration reaches the queue only after the one that follows it (two goroutines arming at
	// the same time: the order in which their calls land is not the order of their deadlines)
	swapNext bool
	held     *heldInsert
}

type heldInsert struct {
	prefix   string
	pkt      packet.Packet
	deadline time.Time
	cb       ack.Callback
}

// SwapNextArming makes the next two registrations on this node reach the queue in the opposite order.
func (n *Node) SwapNextArming() {
	n.w.mu.Lock()
	n.Acks.swapNext = true
	n.w.mu.Unlock()
}

func (q *ackProxy) flushHeld() {
	q.w.mu.Lock()
	h := q.held
	q.held = nil
	q.w.mu.Unlock()
	if h != nil {
		q.inner.Insert(h.prefix, h.pkt, h.deadline, h.cb)
	}
}

func midOf(p packet.Packet) int32 {
	if a, ok := p.(interface{ GetMessageId() int32 }); ok {
		return a.GetMessageId()
	}
	return 0
}

func (q *ackProxy) Insert(prefix string, pkt packet.Packet, deadline time.Time, cb ack.Callback) error {
	q.w.mu.Lock()
	if q.swapNext {
		q.swapNext = false
		q.held = &heldInsert{prefix, pkt, deadline, cb}
		q.node.AckInserts = append(q.node.AckInserts, AckInsert{Seq: q.w.nextSeq(), At: time.Now(), Session: prefix, Type: pkt.Type(), ID: midOf(pkt), Deadline: deadline})
		q.w.mu.Unlock()
		return nil
	}
	q.w.mu.Unlock()
	err := q.inner.Insert(prefix, pkt, deadline, cb)
	q.flushHeld()
	es := ""
	if err != nil {
		es = err.Error()
	}
	q.w.mu.Lock()
	q.node.AckInserts = append(q.node.AckInserts, AckInsert{Seq: q.w.nextSeq(), At: time.Now(), Session: prefix, Type: pkt.Type(), ID: midOf(pkt), Deadline: deadline, Err: es})
	q.w.mu.Unlock()
	return err
}
func (q *ackProxy) Ack(prefix string, pkt packet.Packet) error {
	q.flushHeld()
	err := q.inner.Ack(prefix, pkt)
	if err == nil {
		q.w.mu.Lock()
		q.node.AckResolved = append(q.node.AckResolved, AckInsert{Seq: q.w.nextSeq(), At: time.Now(), Session: prefix, Type: pkt.Type(), ID: midOf(pkt)})
		q.w.mu.Unlock()
	}
	return err
}
func (q *ackProxy) Expire(now time.Time) {
	q.flushHeld()
	q.inner.Expire(now)
}

// ---- taps (recording no-op) ----

type nopTaps struct{}

func (nopTaps) Run(ctx context.Context) { <-ctx.Done() }
func (nopTaps) Dispatch(context.Context, string, *packet.Publish) error {
	return nil
}

// ---- authentication: harness handler issuing s1, s2, ... ; mount point from the user name ----

type harnessAuth struct {
	w *World
}

func (h *harnessAuth) Authenticate(ctx context.Context, m auth.ApplicationContext, t auth.TransportContext) (auth.Principal, error) {
	h.w.mu.Lock()
	defer h.w.mu.Unlock()
	user := string(m.Username)
	if user == "bad" {
		return auth.Principal{}, auth.ErrAuthenticationFailed
	}
	h.w.sessionCounter++
	id := fmt.Sprintf("s%d", h.w.sessionCounter)
	if strings.HasPrefix(user, "sid:") { // a backend that issues stable session identifiers
		id = strings.TrimPrefix(user, "sid:")
		user = ""
	}
	mp := auth.DefaultMountPoint
	if strings.HasPrefix(user, "mp:") {
		mp = strings.TrimPrefix(user, "mp:")
	}
	h.w.SessionOf[string(m.ClientID)+"@"+user] = id
	h.w.lastSessionID = id
	return auth.Principal{ID: id, MountPoint: mp}, nil
}

// ---- inter-node transport over in-process gRPC ----

type RPCEvent struct {
	Seq      int64
	From, To uint64
	OK       bool
}

type harnessTransport struct {
	w    *World
	from *Node
}

func (t *harnessTransport) Call(id uint64, f func(*grpc.ClientConn) error) error {
	w := t.w
	w.mu.Lock()
	blocked := w.unreachable[[2]uint64{t.from.ID, id}]
	shutdown := w.shutdownOnCall[t.from.ID]
	var target *Node
	for _, n := range w.Nodes {
		if n.ID == id {
			target = n
		}
	}
	w.mu.Unlock()
	var err error
	switch {
	case shutdown:
		if t.from.cancel != nil {
			t.from.cancel() // the node is being stopped while this call is in flight
		}
		err = context.Canceled
	case blocked && target != nil && !target.Dead:
		// a real connection whose transport cannot be established (connection refused): the call fails, or does
		// whatever the production call options make it do
		err = f(t.from.dialRefused(target))
	case target == nil || target.Dead:
		err = errors.New("peer is gone")
	default:
		conn := t.from.dial(target)
		err = f(conn)
	}
	w.mu.Lock()
	w.RPCEvents = append(w.RPCEvents, RPCEvent{Seq: w.nextSeq(), From: t.from.ID, To: id, OK: err == nil})
	w.mu.Unlock()
	w.deviationPoint("rpc")
	return err
}

// ---- node ----

type Node struct {
	ID      uint64
	w       *World
	ctx     context.Context
	cancel  context.CancelFunc
	Dir     string
	Log     *logProxy
	Bcast   *memberlist.TransmitLimitedQueue
	DState  distributed.State
	Local   wasp.LocalState
	Acks    *ackProxy
	Writer  wasp.Writer
	Manager wasp.Manager
	Members wasp.NodeMemberManager
	Dist    *wasp.PublishDistributor

	lis     *bufconn.Listener
	srv     *grpc.Server
	conns   map[uint64]*grpc.ClientConn
	refused map[uint64]*grpc.ClientConn
	dialMu  chanMutex
	wg      sync.WaitGroup

	Consumed []uint64
	// AckResolved: the acknowledgements the queue accepted (an exchange ended by its peer, not by its deadline)
	AckResolved []AckInsert
	AckInserts  []AckInsert
	Dead        bool
}

// dialRefused returns a client connection to target whose every connection attempt is refused.
func (n *Node) dialRefused(target *Node) *grpc.ClientConn {
	n.dialMu.Lock()
	defer n.dialMu.Unlock()
	if c := n.refused[target.ID]; c != nil {
		return c
	}
	opts := append(rpc.GRPCClientOptions("", "", "", true), grpc.WithContextDialer(func(ctx context.Context, _ string) (net.Conn, error) {
		return nil, errors.New("injected: connection refused")
	}))
	c, err := grpc.Dial("bufnet-refused", opts...)
	if err != nil {
		panic(err)
	}
	if n.refused == nil {
		n.refused = map[uint64]*grpc.ClientConn{}
	}
	n.refused[target.ID] = c
	return c
}

func (n *Node) dial(target *Node) *grpc.ClientConn {
	n.dialMu.Lock() // one connection per peer even when two publishes dial at once (a second one would leak past stop())
	defer n.dialMu.Unlock()
	if c := n.conns[target.ID]; c != nil {
		return c
	}
	// the production dial options (interceptor chain, TLS with the verification setting of the default deployment);
	// only the byte transport is replaced by the in-memory listener of the target node
	opts := append(rpc.GRPCClientOptions("", "", "", true), grpc.WithContextDialer(func(ctx context.Context, _ string) (net.Conn, error) {
		return target.lis.Dial()
	}),
		// innermost interceptor (after the production chain): the place where an answer can get lost on the wire
		grpc.WithChainUnaryInterceptor(func(ctx context.Context, method string, req, reply interface{}, cc *grpc.ClientConn, invoker grpc.UnaryInvoker, co ...grpc.CallOption) error {
			err := invoker(ctx, method, req, reply, cc, co...)
			w := n.w
			w.mu.Lock()
			lose := err == nil && w.loseResponse[[2]uint64{n.ID, target.ID}]
			if lose {
				delete(w.loseResponse, [2]uint64{n.ID, target.ID})
			}
			w.mu.Unlock()
			if lose {
				// the peer did what was asked, the connection broke before its answer came back
				return status.Error(codes.Unavailable, "injected: transport is closing")
			}
			return err
		}))
	c, err := grpc.Dial("bufnet", opts...)
	if err != nil {
		panic(err)
	}
	n.conns[target.ID] = c
	return c
}

var (
	// HarnessOut is the process's real standard output; os.Stdout itself is pointed at /dev/null once a world exists,
	// because the stdout audit recorder prints every event there
	HarnessOut  = os.Stdout
	silenceOnce sync.Once
)

func silenceStdout() {
	silenceOnce.Do(func() {
		if f, err := os.OpenFile(os.DevNull, os.O_WRONLY, 0); err == nil {
			os.Stdout = f
		}
	})
}

var (
	certOnce sync.Once
	certVal  *tls.Certificate
)

// harnessCert is the self-signed certificate a node generates for itself when none is configured (once per process:
// key generation is the slow part and the key is irrelevant to what is checked).
func harnessCert() *tls.Certificate {
	certOnce.Do(func() {
		c, err := rpc.GenerateSelfSignedCertificate("verif", []string{"*"}, nil)
		if err != nil {
			panic(err)
		}
		certVal = c
	})
	return certVal
}

func (n *Node) goRun(f func(ctx context.Context)) {
	n.wg.Add(1)
	go func() {
		defer n.wg.Done()
		f(n.ctx)
	}()
}

// NodeOpts tunes one node.
type NodeOpts struct {
	Prefill      int   // messages appended to the log before the broker starts
	PrefillState int64 // -1: no consumer state file; >=0: state file holding that offset
	SmallPool    bool  // writer with identifier range 0..3 (ids 1..3 usable)
	PoolMin      int32
	PoolMax      int32
}

// World is one complete in-process deployment.
type World struct {
	tapDelay atomic.Int64
	T        *testing.T
	mu       sync.Mutex
	seq      int64
	Dir      string
	Auth     wasp.AuthenticationHandler

	Nodes   []*Node
	Clients []*Client

	sessionCounter int
	lastSessionID  string
	SessionOf      map[string]string

	unreachable    map[[2]uint64]bool
	shutdownOnCall map[uint64]bool
	LogEvents      []LogEvent
	RPCEvents      []RPCEvent

	// Gossip: messages drained from each node's queue, waiting for delivery.
	Pending []*GossipMsg
	// GossipAuto delivers every drained message to every other live node right away.
	GossipAuto bool
	// GossipHold, when set, keeps the drained messages for which it returns true (by drain index) in
	// Pending until DeliverAll.
	loseResponse map[[2]uint64]bool
	dev          *Deviation
	devCount     map[string]int
	devFired     bool
	// Seam, when set, is called (on the broker's goroutine) after each session-record call of a connection manager
	Seam func(n *Node, op, arg string)
	// GossipLazy: nothing is taken out of the nodes' transmit queues until it is cleared again (the gossip layer drains
	// them periodically, several operations may queue up in between)
	GossipLazy  bool
	GossipHold  func(idx int) bool
	gossipIndex int

	clockMu     sync.Mutex
	clockOffset int64
	lastClockBy map[int64]int64
	oldClock    func() int64
}

// SetClockOffset sets the offset (ns) added to the CRDT clock from now on: events are run to
// quiescence one at a time, so the harness sets the offset of the node an event is addressed to.
func (w *World) SetClockOffset(d time.Duration) {
	w.clockMu.Lock()
	w.clockOffset = int64(d)
	w.clockMu.Unlock()
}

type GossipMsg struct {
	From      uint64
	Payload   []byte
	Delivered map[uint64]bool
	Index     int
}

func (w *World) nextSeq() int64 { w.seq++; return w.seq }

// Seq returns a fresh global sequence number (orders harness-side observations against proxy events).
func (w *World) Seq() int64 {
	w.mu.Lock()
	defer w.mu.Unlock()
	return w.nextSeq()
}

var worldCounter atomic.Int64

func scratchBase() string {
	if d := os.Getenv("VERIF_SCRATCH"); d != "" {
		return d
	}
	return "/dev/shm"
}

// AuthOverride, when non-nil, replaces the harness authentication handler of the next worlds (C16 uses the real stores).
var AuthOverride wasp.AuthenticationHandler

// NewWorld builds n nodes. Must be called inside a synctest bubble.
func NewWorld(t *testing.T, n int, opts ...NodeOpts) *World {
	dir := filepath.Join(scratchBase(), fmt.Sprintf("world-%d-%d", os.Getpid(), worldCounter.Add(1)))
	os.MkdirAll(dir, 0o755)
	w := &World{T: t, Dir: dir, SessionOf: map[string]string{}, unreachable: map[[2]uint64]bool{}, shutdownOnCall: map[uint64]bool{}, GossipAuto: true, lastClockBy: map[int64]int64{}}
	w.Auth = &harnessAuth{w: w}
	if AuthOverride != nil {
		w.Auth = AuthOverride
	}
	w.oldClock = distributed.VerifSetClock(func() int64 {
		// follows virtual time plus the clock offset of the node on whose behalf the current event runs;
		// strictly increasing per offset (two changes in one virtual instant must not tie)
		w.clockMu.Lock()
		defer w.clockMu.Unlock()
		off := w.clockOffset
		v := time.Now().UnixNano() + off
		if last, ok := w.lastClockBy[off]; ok && v <= last {
			v = last + 1
		}
		w.lastClockBy[off] = v
		return v
	})
	for i := 0; i < n; i++ {
		o := NodeOpts{PrefillState: -1}
		if i < len(opts) {
			o = opts[i]
		}
		w.Nodes = append(w.Nodes, w.newNode(uint64(i+1), o))
	}
	w.JoinNotices() // cluster formation: every node learns of every other one before any client connects
	synctest.Wait()
	return w
}

func (w *World) newNode(id uint64, o NodeOpts) *Node {
	ctx, cancel := context.WithCancel(context.Background())
	ctx = wasp.StoreLogger(ctx, dbgLogger())
	n := &Node{ID: id, w: w, ctx: ctx, cancel: cancel, conns: map[uint64]*grpc.ClientConn{}}
	n.Dir = filepath.Join(w.Dir, fmt.Sprintf("node%d", id))
	os.MkdirAll(n.Dir, 0o755)
	inner, err := messages.New(n.Dir)
	if err != nil {
		panic(err)
	}
	for i := 0; i < o.Prefill; i++ {
		if err := inner.Append(&packet.Publish{Header: &packet.Header{}, Topic: []byte("_default/prefill"), Payload: []byte(fmt.Sprintf("prefill-%d", i))}); err != nil {
			panic(err)
		}
	}
	if o.PrefillState >= 0 {
		buf := make([]byte, 8)
		messages.Encoding.PutUint64(buf, uint64(o.PrefillState))
		os.WriteFile(filepath.Join(n.Dir, "publish_distributor.state"), buf, 0o650)
	}
	n.Log = &logProxy{w: w, node: n, inner: inner}
	n.Bcast = &memberlist.TransmitLimitedQueue{RetransmitMult: 1, NumNodes: func() int { return 1 }}
	// the broker's default audit recorder (stdout). With the harness's short session identifiers every RecordEvent call
	// returns an error (its template slices the identifier): an audit sink that fails must not change what the broker does
	silenceStdout()
	n.DState = distributed.NewState(id, n.Bcast, audit.StdoutRecorder())
	n.Local = wasp.NewState(id)
	n.Dist = &wasp.PublishDistributor{ID: id, State: n.DState.Subscriptions(), Storage: n.Log, Logger: zap.NewNop(), Transport: &harnessTransport{w: w, from: n}}
	n.Members = wasp.NewNodeMemberManager(id, n.Log, n.DState)
	rpc := wasp.NewMQTTServer(n.DState, n.Local, n.Log, n.Dist, nil)
	n.lis = bufconn.Listen(1 << 20)
	n.srv = grpc.NewServer(grpc.Creds(credentials.NewServerTLSFromCert(harnessCert())))
	rpc.Serve(n.srv)
	n.wg.Add(1)
	go func() { defer n.wg.Done(); n.srv.Serve(n.lis) }()
	n.Acks = &ackProxy{w: w, node: n, inner: ack.NewQueue()}
	if o.PoolMax > 0 {
		n.Writer = wasp.VerifNewWriter(id, n.DState.Subscriptions(), n.Local, n.Acks, o.PoolMin, o.PoolMax)
	} else {
		n.Writer = wasp.NewWriter(id, n.DState.Subscriptions(), n.Local, n.Acks)
	}
	n.goRun(wasp.SchedulePublishes(id, n.Writer, n.Log))
	n.goRun(func(ctx context.Context) { n.Writer.Run(ctx, n.Log) })
	// the broker's own tap dispatcher (cmd/wasp wires one tap into it: stdout, syslog or a remote recorder); the tap of the
	// harness records nothing and takes w.tapDelay of virtual time per message (a recorder slower than the publishers)
	tapsRunner := taps.NewDispatcher([]taps.Tap{func(ctx context.Context, sender string, p *packet.Publish) error {
		if d := w.tapDelay.Load(); d > 0 {
			select {
			case <-time.After(time.Duration(d)):
			case <-ctx.Done():
			}
		}
		return nil
	}})
	n.goRun(tapsRunner.Run)
	pp := wasp.NewPacketProcessor(n.Local, n.DState, n.Writer, tapsRunner, n.Dist, n.Acks)
	n.goRun(pp.Run)
	n.Manager = wasp.NewConnectionManager(w.Auth, n.Local, &seamState{State: n.DState, w: w, node: n}, n.Writer, pp, n.Acks)
	n.goRun(n.Manager.Run)
	return n
}

// Deviation: one departure from the default answer of the environment. The Index-th operation of the given kind (counted
// from the moment the deviation is installed) takes effect as usual and then returns Delay (virtual) late: the caller is
// held at that very point while everything else goes on. Kinds: "client-write" (a write of the broker to any client
// connection), "log-append" (an append to any node's message log), "rpc" (an inter-node call).
type Deviation struct {
	Kind  string        `json:"kind"`
	Index int           `json:"index"`
	Delay time.Duration `json:"delay_ns"`
}

func (d *Deviation) String() string {
	if d == nil {
		return "none"
	}
	return fmt.Sprintf("%s #%d returns %v late", d.Kind, d.Index, d.Delay)
}

// SetDeviation installs d (nil: none) and resets the operation counters.
func (w *World) SetDeviation(d *Deviation) {
	w.mu.Lock()
	w.dev = d
	w.devCount = map[string]int{}
	w.devFired = false
	w.mu.Unlock()
}

// DeviationFired reports whether the installed deviation's operation was reached.
func (w *World) DeviationFired() bool {
	w.mu.Lock()
	defer w.mu.Unlock()
	return w.devFired
}

// OpCount returns how many operations of a kind were seen since SetDeviation.
func (w *World) OpCount(kind string) int {
	w.mu.Lock()
	defer w.mu.Unlock()
	return w.devCount[kind]
}

func (w *World) deviationPoint(kind string) {
	w.mu.Lock()
	if w.devCount == nil {
		w.devCount = map[string]int{}
	}
	w.devCount[kind]++
	d := w.dev
	hit := d != nil && d.Kind == kind && w.devCount[kind] == d.Index
	if hit {
		w.devFired = true
	}
	w.mu.Unlock()
	if hit {
		time.Sleep(d.Delay)
	}
}

// seamState is the replicated state as the connection manager sees it: the real one, plus a seam after each of the
// session-record calls at which a scenario may let something else happen (World.Seam), e.g. the previous connection of a
// client going away between the manager's look-up of its record and what the manager does with the answer.
type seamState struct {
	distributed.State
	w    *World
	node *Node
}
type seamSessions struct {
	distributed.SessionMetadatasState
	s *seamState
}

func (s *seamState) SessionMetadatas() distributed.SessionMetadatasState {
	return &seamSessions{SessionMetadatasState: s.State.SessionMetadatas(), s: s}
}
func (x *seamSessions) at(op, arg string) {
	if f := x.s.w.Seam; f != nil {
		f(x.s.node, op, arg)
	}
}
func (x *seamSessions) ByClientIDInMountPoint(mp, clientID string) (api.SessionMetadatas, error) {
	md, err := x.SessionMetadatasState.ByClientIDInMountPoint(mp, clientID)
	x.at("lookup", clientID)
	return md, err
}
func (x *seamSessions) Delete(id string) error {
	err := x.SessionMetadatasState.Delete(id)
	x.at("delete", id)
	return err
}
func (x *seamSessions) Create(id, clientID string, connectedAt int64, lwt *packet.Publish, mountpoint string) error {
	err := x.SessionMetadatasState.Create(id, clientID, connectedAt, lwt, mountpoint)
	x.at("create", clientID)
	return err
}

// JoinNotices tells every running node that each other running node joined: what the membership layer reports at the
// first contact and again whenever a known peer's advertised metadata change. It says nothing about the peer's sessions.
func (w *World) JoinNotices() {
	for _, n := range w.Nodes {
		if n.cancel == nil {
			continue
		}
		for _, o := range w.Nodes {
			if o != n && o.cancel != nil {
				n.Members.NotifyGossipJoin(o.ID)
			}
		}
	}
}

// Node returns node i (1-based id).
func (w *World) Node(id int) *Node { return w.Nodes[id-1] }

// Close tears the world down; every goroutine of the bubble must be gone afterwards.
func (w *World) Close() {
	w.mu.Lock()
	d := w.dev
	w.mu.Unlock()
	if d != nil {
		// a late answer may still be outstanding: let it return before the world is torn down
		synctest.Wait()
		time.Sleep(d.Delay + 100*time.Millisecond)
		synctest.Wait()
	}
	for _, c := range w.Clients {
		c.Drop()
	}
	for _, n := range w.Nodes {
		n.stop()
	}
	synctest.Wait()
	distributed.VerifSetClock(w.oldClock)
	os.RemoveAll(w.Dir)
}

func (n *Node) stop() {
	if n.cancel == nil {
		return
	}
	n.cancel()
	n.cancel = nil
	for _, c := range n.conns {
		c.Close()
	}
	for _, c := range n.refused {
		c.Close()
	}
	n.srv.Stop()
	n.lis.Close()
	n.wg.Wait()
	n.Log.Close()
}

// ---- time ----

// Quiesce waits until every goroutine is durably blocked.
func (w *World) Quiesce() { synctest.Wait() }

// Idle advances virtual time by d and lets the system settle. Gossip drained meanwhile follows the policy.
func (w *World) Idle(d time.Duration) {
	synctest.Wait()
	time.Sleep(d)
	synctest.Wait()
	w.PumpGossip()
}

// Step is run after every event: quiesce, advance the settle quantum, quiesce, pump gossip.
func (w *World) Step() { w.Idle(Settle) }

// ---- gossip ----

// DrainGossip moves queued broadcasts of every live node to Pending.
func (w *World) DrainGossip() {
	if w.GossipLazy {
		return // broadcasts stay in each node's own transmit queue (where a later one may invalidate an earlier one)
	}
	for _, n := range w.Nodes {
		if n.Dead {
			continue
		}
		for {
			b := n.Bcast.GetBroadcasts(0, 1<<24)
			if len(b) == 0 {
				break
			}
			// GetBroadcasts orders by size, not age: a single drain normally holds one operation's
			// messages; keep the queue order stable by sorting on nothing and delivering as returned.
			for _, x := range b {
				w.Pending = append(w.Pending, &GossipMsg{From: n.ID, Payload: append([]byte{}, x...), Delivered: map[uint64]bool{}, Index: w.gossipIndex})
				w.gossipIndex++
			}
		}
	}
}

// PumpGossip drains and, under GossipAuto, delivers everything to everyone until nothing moves.
func (w *World) PumpGossip() {
	for round := 0; round < 20; round++ {
		w.DrainGossip()
		if !w.GossipAuto {
			return
		}
		moved := false
		var held []*GossipMsg
		for _, m := range w.Pending {
			if w.GossipHold != nil && w.GossipHold(m.Index) {
				held = append(held, m)
				continue
			}
			for _, n := range w.Nodes {
				if n.ID != m.From && !n.Dead && !m.Delivered[n.ID] {
					m.Delivered[n.ID] = true
					n.DState.Distributor().NotifyMsg(m.Payload)
					moved = true
				}
			}
		}
		w.Pending = append(w.Pending[:0], held...)
		synctest.Wait()
		if !moved {
			return
		}
	}
}

// Deliver hands pending message k to node `to`.
func (w *World) Deliver(k int, to uint64) {
	m := w.Pending[k]
	if m.From == to || m.Delivered[to] {
		return
	}
	m.Delivered[to] = true
	w.Node(int(to)).DState.Distributor().NotifyMsg(m.Payload)
	synctest.Wait()
}

// DeliverAll delivers every pending message to every other live node in the given order
// (reverse=true: newest first) and clears the list.
func (w *World) DeliverAll(reverse bool) {
	for round := 0; round < 20; round++ {
		w.DrainGossip()
		if len(w.Pending) == 0 {
			return
		}
		ms := append([]*GossipMsg{}, w.Pending...)
		w.Pending = w.Pending[:0]
		if reverse {
			for i, j := 0, len(ms)-1; i < j; i, j = i+1, j-1 {
				ms[i], ms[j] = ms[j], ms[i]
			}
		}
		for _, m := range ms {
			for _, n := range w.Nodes {
				if n.ID != m.From && !n.Dead && !m.Delivered[n.ID] {
					m.Delivered[n.ID] = true
					n.DState.Distributor().NotifyMsg(m.Payload)
				}
			}
		}
		synctest.Wait()
	}
}

// FullState merges from's snapshot into to.
func (w *World) FullState(from, to int) {
	buf := w.Node(from).DState.Distributor().LocalState(false)
	w.Node(to).DState.Distributor().MergeRemoteState(buf, false)
	synctest.Wait()
}

// ---- faults ----

// LoseNextResponse: the next call from `from` to `to` is carried out by the peer, but its answer is lost on the way back
// (the caller sees the error gRPC reports for a connection that broke).
func (w *World) LoseNextResponse(from, to int) {
	w.mu.Lock()
	if w.loseResponse == nil {
		w.loseResponse = map[[2]uint64]bool{}
	}
	w.loseResponse[[2]uint64{uint64(from), uint64(to)}] = true
	w.mu.Unlock()
}

func (w *World) SetUnreachable(from, to int, on bool) {
	w.mu.Lock()
	w.unreachable[[2]uint64{uint64(from), uint64(to)}] = on
	w.mu.Unlock()
}
func (w *World) FailLog(node int, on bool) { w.Node(node).Log.fail.Store(on) }

// SlowTap makes the message recorder (tap) of every node take d of virtual time per message.
func (w *World) SlowTap(d time.Duration) { w.tapDelay.Store(int64(d)) }

// SlowLog makes every append on node take d of virtual time.
func (w *World) SlowLog(node int, d time.Duration) { w.Node(node).Log.slow.Store(int64(d)) }

// ShutdownOnCall makes the next inter-node call issued by node `from` coincide with that node's shutdown:
// its context is cancelled while the call is in flight and the call fails with a cancellation error.
func (w *World) ShutdownOnCall(from int, on bool) {
	w.mu.Lock()
	w.shutdownOnCall[uint64(from)] = on
	w.mu.Unlock()
}

// LeaveStaggered kills node id and notifies the survivors one after the other, `gap` of virtual time
// apart (failure detectors do not fire simultaneously); gossip flows in between.
func (w *World) LeaveStaggered(id int, gap time.Duration) {
	n := w.Node(id)
	n.Dead = true
	n.stop()
	for _, c := range w.Clients {
		if c.Node == n {
			c.Drop()
		}
	}
	synctest.Wait()
	for _, s := range w.Nodes {
		if !s.Dead {
			s.Members.NotifyGossipLeave(uint64(id))
			w.Idle(gap)
		}
	}
}

// Leave kills node id: its context is cancelled, its clients are dropped by the harness (the
// machine is gone), and every survivor is notified through NotifyGossipLeave.
func (w *World) Leave(id int) {
	n := w.Node(id)
	n.Dead = true
	// the machine is gone: stop every goroutine of the node first, so that it cannot react to its
	// clients' connections breaking (a crashed broker publishes no wills and sends no gossip)
	n.stop()
	for _, c := range w.Clients {
		if c.Node == n {
			c.Drop()
		}
	}
	synctest.Wait()
	for _, s := range w.Nodes {
		if !s.Dead {
			s.Members.NotifyGossipLeave(uint64(id))
		}
	}
	synctest.Wait()
}

// Crash is the first half of Leave: the machine is gone (goroutines stopped, clients' connections broken), but the
// failure detectors of the survivors have not reported it yet. NotifyLeave is the second half.
func (w *World) Crash(id int) {
	n := w.Node(id)
	n.Dead = true
	n.stop()
	for _, c := range w.Clients {
		if c.Node == n {
			c.Drop()
		}
	}
	synctest.Wait()
}

// NotifyLeave tells every survivor that node id failed.
func (w *World) NotifyLeave(id int) {
	for _, s := range w.Nodes {
		if !s.Dead {
			s.Members.NotifyGossipLeave(uint64(id))
		}
	}
	synctest.Wait()
}

// ---- observation ----

type NodeView struct {
	Sessions      []string // "id client peer mount"
	Subscriptions []string // "session pattern peer qos"
	Retained      []string
	LocalSessions []string
}

func (n *Node) View() NodeView {
	var v NodeView
	for _, s := range n.DState.SessionMetadatas().All() {
		v.Sessions = append(v.Sessions, fmt.Sprintf("%s client=%s peer=%d mount=%s", s.SessionID, s.ClientID, s.Peer, s.MountPoint))
	}
	for _, s := range n.DState.Subscriptions().All() {
		v.Subscriptions = append(v.Subscriptions, fmt.Sprintf("%s %s peer=%d qos=%d", s.SessionID, s.Pattern, s.Peer, s.QoS))
	}
	ms, _ := n.DState.Topics().Get([]byte("#"))
	for _, m := range ms {
		v.Retained = append(v.Retained, fmt.Sprintf("%s=%s", m.Publish.Topic, m.Publish.Payload))
	}
	for _, s := range n.Local.ListSessions() {
		v.LocalSessions = append(v.LocalSessions, s.ID())
	}
	sort.Strings(v.Sessions)
	sort.Strings(v.Subscriptions)
	sort.Strings(v.Retained)
	sort.Strings(v.LocalSessions)
	return v
}

func (v NodeView) String() string {
	return fmt.Sprintf("sessions%v subs%v retained%v local%v", v.Sessions, v.Subscriptions, v.Retained, v.LocalSessions)
}

// Digest is a canonical observation of the whole world (states count, replay comparison).
func (w *World) Digest() string {
	var b strings.Builder
	for _, n := range w.Nodes {
		if n.Dead {
			fmt.Fprintf(&b, "n%d:dead;", n.ID)
			continue
		}
		fmt.Fprintf(&b, "n%d:%s;", n.ID, n.View())
	}
	for _, c := range w.Clients {
		fmt.Fprintf(&b, "%s:%s;", c.Name, c.InboxDigest())
	}
	fmt.Fprintf(&b, "pending=%d", len(w.Pending))
	return b.String()
}

// Connect registers the server end of a pipe with node's connection manager, like a listener would.
func (n *Node) accept(c net.Conn) {
	go n.Manager.Setup(n.ctx, transport.Metadata{Name: "tcp", Channel: c})
}

// RunBubble executes f inside a fresh synctest bubble as a subtest.
func RunBubble(t *testing.T, name string, f func(t *testing.T)) {
	t.Run(name, func(t *testing.T) { synctest.Test(t, f) })
}

// decodeKeys lists the entries ("session:<id>", "sub:<session>|<pattern>", "retained:<topic>") a gossip payload carries.
func decodeKeys(b []byte) ([]string, error) {
	ev := &api.StateBroadcastEvent{}
	if err := proto.Unmarshal(b, ev); err != nil {
		return nil, err
	}
	var out []string
	for _, s := range ev.SessionMetadatas {
		out = append(out, "session:"+s.SessionID)
	}
	for _, s := range ev.Subscriptions {
		out = append(out, "sub:"+s.SessionID+"|"+string(s.Pattern))
	}
	for _, m := range ev.RetainedMessages {
		if m.Publish != nil {
			out = append(out, "retained:"+string(m.Publish.Topic))
		}
	}
	return out, nil
}

func dbgLogger() *zap.Logger {
	if os.Getenv("VERIF_DEBUG") != "" {
		l, _ := zap.NewDevelopment()
		return l
	}
	return zap.NewNop()
}

// pendingFrom returns the origin of the pending gossip message with the given drain index (0 if delivered already).
func (w *World) pendingFrom(idx int) uint64 {
	for _, m := range w.Pending {
		if m.Index == idx {
			return m.From
		}
	}
	return 0
}

// decodeSessions lists the session entries of a gossip payload as "id" -> live (added and not removed).
func decodeSessions(b []byte) map[string]bool {
	ev := &api.StateBroadcastEvent{}
	out := map[string]bool{}
	if err := proto.Unmarshal(b, ev); err != nil {
		return out
	}
	for _, s := range ev.SessionMetadatas {
		out[s.SessionID] = s.LastAdded > 0 && s.LastAdded > s.LastDeleted
	}
	return out
}

// chanMutex is a mutex built on a channel: unlike sync.Mutex, blocking on it is "durably blocked" for testing/synctest.
type chanMutex struct {
	once sync.Once
	ch   chan struct{}
}

func (m *chanMutex) init()   { m.once.Do(func() { m.ch = make(chan struct{}, 1) }) }
func (m *chanMutex) Lock()   { m.init(); m.ch <- struct{}{} }
func (m *chanMutex) Unlock() { <-m.ch }

// BreakLogDir makes the directory of a node's message log unusable for anything new, the way a volume that went away
// does: the directory is moved aside and a plain file takes its name. Segments that are open stay writable through
// their descriptors; creating the next segment fails inside the commit log with a real I/O error.
func (w *World) BreakLogDir(node int) error {
	dir := filepath.Join(w.Node(node).Dir, "log")
	if err := os.Rename(dir, dir+".gone"); err != nil {
		return err
	}
	return os.WriteFile(dir, []byte("not a directory"), 0o600)
}

// LogHolds reads a node's real log back (every offset from 0 until the log has no more) and reports whether an entry
// with that payload is stored.
func (w *World) LogHolds(node int, payload string) (bool, error) {
	inner := w.Node(node).Log.inner
	for off := uint64(0); off < 100000; off++ {
		p, err := inner.Get(off)
		if err != nil {
			return false, nil // end of the log
		}
		if string(p.Payload) == payload {
			return true, nil
		}
	}
	return false, fmt.Errorf("log does not end")
}
