#!/usr/bin/env python3
"""Generates the E2 build overlay from /repo's CURRENT working tree: every non-test Go file of the repository that imports
"sync" is copied with that import rewritten to verif/dsync (channel-based locks: a goroutine waiting for one is durably
blocked for testing/synctest, so virtual time advances while a lock is held by a goroutine the harness keeps waiting).
Nothing else changes; files that do not import sync are compiled as they are."""
import json, os, re, subprocess, sys
out = sys.argv[1]
os.makedirs(out, exist_ok=True)
files = subprocess.run(["git", "-C", "/repo", "ls-files", "-co", "--exclude-standard", "*.go"], capture_output=True, text=True).stdout.split()
replace = {}
for rel in files:
    if rel.endswith("_test.go"):
        continue
    src = os.path.join("/repo", rel)
    if not os.path.exists(src):
        continue
    s = open(src).read()
    s2, n = re.subn(r'^(\s*)"sync"\s*$', r'\1sync "verif/dsync"', s, flags=re.M)
    if n == 0:
        if re.search(r'^\s*(\w+\s+)?"sync"', s, flags=re.M):
            print("overlay: %s imports sync in a form the rewriter does not know" % rel, file=sys.stderr); sys.exit(2)
        continue
    dst = os.path.join(out, rel.replace("/", "__"))
    open(dst, "w").write(s2)
    replace[src] = dst
json.dump({"Replace": replace}, open(os.path.join(out, "overlay.json"), "w"), indent=1)
print("overlay(e2): %d files" % len(replace), file=sys.stderr)
