package e2

import (
	"crypto/sha256"
	"fmt"
	"os"
	"path/filepath"
	"sort"
	"strings"
	"testing"
	"time"

	"github.com/vx-labs/mqtt-protocol/packet"
	"github.com/vx-labs/wasp/v4/wasp/auth"

	"verif/internal/vk"
)

// C17: mount points isolate tenants. Direct oracle (every delivered topic/payload was published by
// the receiver's own tenant, verbatim) + differential non-interference oracle (tenant A's complete
// observation on a path equals its observation on the same path with tenant B's events deleted).

type c17path struct {
	MountA string   `json:"mount_a"`
	MountB string   `json:"mount_b"`
	Nodes  int      `json:"nodes"`
	Events []string `json:"events"` // "A:sub:#", "B:pub:t:r", ...
}

func c17alphabet() []string {
	var out []string
	for _, t := range []string{"A", "B"} {
		for _, f := range []string{"#", "+", "+/t", "t", "t/#"} {
			out = append(out, t+":sub:"+f)
		}
		for _, tp := range []string{"t", "t/u", "m2/t"} {
			out = append(out, t+":pub:"+tp+":-", t+":pub:"+tp+":r")
		}
		// names that are opaque to MQTT but that a path-cleaning prefix function would rewrite: '..' into the
		// other tenant's mount point, '.', and an empty level ("@O" is replaced by the other tenant's mount point)
		out = append(out, t+":pub:../@O/t:-", t+":sub:../@O/#", t+":pub:./t:-", t+":pub:t//u:-")
		// a topic that begins with a separator (its first level is empty): what comes back must begin with it too
		out = append(out, t+":pub:/t:-")
		// a QoS 2 publish started now and released later (other events happen while the message waits in the broker)
		out = append(out, t+":q2start:t", t+":q2release")
		// the same handshake by a second client of the tenant whose client identifier (and packet identifier) the other
		// tenant uses as well: client identifiers are unique per mount point only
		out = append(out, t+":nq2start:t", t+":nq2release")
		out = append(out, t+":willdrop", t+":dupid")
		// a QoS 1 subscription whose deliveries are never acknowledged: every copy that follows (the broker sends the
		// message again after each acknowledgement timeout) must name the topic the way the first one did
		out = append(out, t+":sub1:#")
	}
	out = append(out, "X:wait") // 4 s pass (both tenants' unacknowledged deliveries time out); kept in the projected run
	return out
}

func c17paths() []c17path {
	var out []c17path
	alpha := c17alphabet()
	depth := vk.Pick(3, 4)
	var seqs [][]string
	var rec func(cur []string)
	rec = func(cur []string) {
		if len(cur) > 0 {
			hasA, hasB, hasX := false, false, false
			for _, e := range cur {
				if e[0] == 'A' {
					hasA = true
				} else if e[0] == 'B' {
					hasB = true
				} else {
					hasX = true
				}
			}
			if hasA && (hasB || hasX) { // other paths without interference are only run as projections
				seqs = append(seqs, append([]string{}, cur...))
			}
		}
		if len(cur) == depth {
			return
		}
		for _, e := range alpha {
			rec(append(cur, e))
		}
	}
	rec(nil)
	mounts := [][2]string{{"m1", "m2"}, {"m1", "m10"}, {"m10", "m1"}}
	for mi, m := range mounts {
		for _, s := range seqs {
			if mi > 0 && len(s) == depth && !vk.Thorough() {
				continue // quick: full depth only for the first mount assignment
			}
			nodes := 1
			out = append(out, c17path{m[0], m[1], nodes, s})
			if vk.Thorough() && len(s) <= 3 && mi == 0 {
				out = append(out, c17path{m[0], m[1], 2, s})
			}
		}
	}
	return out
}

type c17obs struct {
	inbox []string
	alive bool
	ping  bool
	// what became of the tenant's second client (the one whose client identifier the other tenant uses too)
	namesake string
}

func (o c17obs) String() string {
	return fmt.Sprintf("alive=%v ping=%v inbox=%v second-client=%s", o.alive, o.ping, o.inbox, o.namesake)
}

// runC17 executes events (already filtered) and returns tenant A's observation plus direct-oracle violations.
func runC17(t *testing.T, p c17path, events []string, direct func(sig, msg string)) (obs c17obs, ok bool) {
	w := NewWorld(t, p.Nodes)
	defer w.Close()
	mount := map[byte]string{'A': p.MountA, 'B': p.MountB}
	nodeOf := map[byte]int{'A': 1, 'B': p.Nodes}
	main := map[byte]*Client{}
	for _, tn := range []byte{'A', 'B'} {
		c := w.NewClient(string(tn)+"1", nodeOf[tn], AckNone) // QoS 0 subscriptions only; PUBREL is sent by the script
		if c.Connect(ConnectOpts{ClientID: "id" + string(tn), KeepAlive: 600, User: "mp:" + mount[tn]}) != 0 {
			return obs, false
		}
		main[tn] = c
	}
	w.Step()
	published := map[byte]map[string]bool{'A': {}, 'B': {}} // tenant -> "topic|payload"
	pendingQ2 := map[byte][]int32{}
	namesake := map[byte]*Client{}
	namesakePending := map[byte]bool{}
	perTenant := map[byte]int{}
	for _, ev := range events {
		otherMount := mount['A']
		if ev[0] == 'A' {
			otherMount = mount['B']
		}
		ev = strings.ReplaceAll(ev, "@O", otherMount)
		parts := strings.Split(ev, ":")
		tn := ev[0]
		c := main[tn]
		// identifiers and payloads count the tenant's own events, so they are the same in the projected run
		k := perTenant[tn]
		perTenant[tn]++
		if tn == 'X' {
			w.Idle(4 * time.Second)
			continue
		}
		switch parts[1] {
		case "sub":
			c.Subscribe(int32(10+k), 0, parts[2])
		case "sub1":
			c.Subscribe(int32(10+k), 1, parts[2])
		case "pub":
			payload := fmt.Sprintf("%c:%d", tn, k)
			published[tn][parts[2]+"|"+payload] = true
			c.Publish(parts[2], payload, 0, parts[3] == "r", 0)
		case "q2start":
			payload := fmt.Sprintf("%c:q2-%d", tn, k)
			published[tn][parts[2]+"|"+payload] = true
			id := int32(200 + k)
			c.Send(&packet.Publish{Header: &packet.Header{Qos: 2}, Topic: []byte(parts[2]), Payload: []byte(payload), MessageId: id})
			pendingQ2[tn] = append(pendingQ2[tn], id)
		case "q2release":
			for _, id := range pendingQ2[tn] {
				c.Send(&packet.PubRel{Header: &packet.Header{}, MessageId: id})
			}
			pendingQ2[tn] = nil
		case "nq2start", "nq2release":
			nc := namesake[tn]
			if nc == nil {
				nc = w.NewClient(string(tn)+"-namesake", nodeOf[tn], AckNone)
				if nc.Connect(ConnectOpts{ClientID: "shared-name", KeepAlive: 600, User: "mp:" + mount[tn]}) != 0 {
					return obs, false
				}
				namesake[tn] = nc
				w.Step()
			}
			if parts[1] == "nq2start" && !namesakePending[tn] {
				payload := fmt.Sprintf("%c:nq2-%d", tn, k)
				published[tn][parts[2]+"|"+payload] = true
				nc.Send(&packet.Publish{Header: &packet.Header{Qos: 2}, Topic: []byte(parts[2]), Payload: []byte(payload), MessageId: 77})
				namesakePending[tn] = true
			} else if parts[1] == "nq2release" && namesakePending[tn] {
				nc.Send(&packet.PubRel{Header: &packet.Header{}, MessageId: 77})
				namesakePending[tn] = false
			}
		case "willdrop":
			x := w.NewClient(fmt.Sprintf("%c-w%d", tn, k), nodeOf[tn], AckAll)
			x.Connect(ConnectOpts{ClientID: fmt.Sprintf("w-%c-%d", tn, k), KeepAlive: 600, User: "mp:" + mount[tn], WillTopic: "t", WillMsg: fmt.Sprintf("%c:will%d", tn, k)})
			published[tn]["t|"+fmt.Sprintf("%c:will%d", tn, k)] = true
			w.Step()
			x.Drop()
		case "dupid":
			other := byte('A')
			if tn == 'A' {
				other = 'B'
			}
			x := w.NewClient(fmt.Sprintf("%c-dup%d", tn, k), nodeOf[tn], AckAll)
			x.Connect(ConnectOpts{ClientID: "id" + string(other), KeepAlive: 600, User: "mp:" + mount[tn]})
		}
		w.Step()
	}
	w.Idle(2 * time.Second)
	// direct oracle on both tenants' main clients
	for _, tn := range []byte{'A', 'B'} {
		for _, pk := range main[tn].Publishes() {
			key := string(pk.Topic) + "|" + string(pk.Payload)
			if !published[tn][key] {
				other := byte('A')
				if tn == 'A' {
					other = 'B'
				}
				sig := "c17-topic-altered"
				if strings.HasPrefix(string(pk.Payload), string(other)+":") {
					sig = "c17-cross-tenant-delivery"
				}
				direct(sig, fmt.Sprintf("client of mount point %s received %s, which no publisher of its mount point sent (its tenant published %v)", mount[tn], DescribePacket(pk), keysSorted(published[tn])))
			}
		}
	}
	a := main['A']
	a.Ping()
	w.Step()
	obs.alive = !a.BrokerClosed() && w.Node(1).Local.Get(a.SessionID) != nil
	obs.ping = a.Count("PINGRESP") == 1
	// copies of a QoS 1 delivery: how many were sent by now, and under which packet identifier, depends on what else the
	// node delivered and when (the other tenant's traffic legitimately shifts both); which topic and payload they carry
	// does not, so each distinct (topic, payload) of a QoS 1 delivery is observed once
	seenQ1 := map[string]bool{}
	for _, r := range a.Received() {
		if pk, ok := r.Pkt.(*packet.Publish); ok && pk.Header.Qos > 0 {
			s := fmt.Sprintf("PUBLISH(topic=%s payload=%s qos=%d retain=%v)", pk.Topic, pk.Payload, pk.Header.Qos, pk.Header.Retain)
			if !seenQ1[s] {
				seenQ1[s] = true
				obs.inbox = append(obs.inbox, s)
			}
			continue
		}
		obs.inbox = append(obs.inbox, r.String())
	}
	sort.Strings(obs.inbox)
	obs.namesake = "not-connected"
	if nc := namesake['A']; nc != nil {
		var in []string
		for _, r := range nc.Received() {
			in = append(in, r.String())
		}
		obs.namesake = fmt.Sprintf("closed-by-broker=%v inbox=%v", nc.BrokerClosed(), in)
	}
	return obs, true
}

func keysSorted(m map[string]bool) []string {
	var out []string
	for k := range m {
		out = append(out, k)
	}
	sort.Strings(out)
	return out
}

func TestC17MountPoints(t *testing.T) {
	paths := c17paths()
	RunPaths(t, "C17", "C17/mount-point-isolation", "TestC17MountPoints", len(paths), vk.Pick(9*time.Minute, 40*time.Minute),
		func(t *testing.T, i int, rep *vk.Report) {
			p := paths[i]
			var full, proj c17obs
			var ok1, ok2 bool
			viol := func(kf, sig, msg string) {
				rep.Violate(vk.Violation{Sig: sig, KF: kf, Msg: fmt.Sprintf("mounts A=%s B=%s, %d node(s), events %v: %s", p.MountA, p.MountB, p.Nodes, p.Events, msg), Replay: p})
			}
			hasDup := false
			for _, e := range p.Events {
				if e == "B:dupid" {
					hasDup = true
				}
			}
			RunBubble(t, fmt.Sprintf("p%d", i), func(t *testing.T) {
				full, ok1 = runC17(t, p, p.Events, func(sig, msg string) { viol("", sig, msg) })
			})
			var onlyA []string
			for _, e := range p.Events {
				if e[0] == 'A' || e[0] == 'X' {
					onlyA = append(onlyA, e)
				}
			}
			RunBubble(t, fmt.Sprintf("p%d-proj", i), func(t *testing.T) {
				proj, ok2 = runC17(t, p, onlyA, func(sig, msg string) {})
			})
			rep.Transitions += int64(len(p.Events) + len(onlyA))
			if !ok1 || !ok2 {
				rep.HarnessError("connect failed in %v", p)
				return
			}
			childStates.states.AddString(full.String())
			if full.String() != proj.String() {
				kf := ""
				if hasDup && (!full.alive || !full.ping) && proj.alive && proj.ping && fmt.Sprint(full.inbox) == fmt.Sprint(withoutPingresp(proj.inbox)) {
					kf = "C17-client-id-shared-across-mount-points"
				}
				sig := "c17-interference"
				if hasDup && (!full.alive || !full.ping) {
					sig = "c17-interference:client-id"
				}
				viol(kf, sig, fmt.Sprintf("tenant A observes {%s}; with tenant B's events deleted it observes {%s}", full, proj))
			}
			gotPublish := false
			for _, s := range full.inbox {
				if strings.HasPrefix(s, "PUBLISH") {
					gotPublish = true
				}
			}
			if gotPublish {
				MarkNontrivial(fmt.Sprintf("%+v", p))
				rep.Nontrivial++
			}
			if i%1999 == 0 {
				rep.Sample(p)
			}
		},
		func(i int) any { return paths[i] },
		func(rep *vk.Report) {
			rep.Rule = "paths = event sequences (both tenants involved) over per-tenant {subscribe #|+|+/t|t|t/#, publish t|t/u|m2/t x retain, will-bearing drop, connect with the other tenant's client id, QoS 1 subscribe # never acknowledging} plus a 4 s wait for mount pairs (m1,m2), (m1,m10), (m10,m1); each path is executed twice: in full and with tenant B's events deleted; non-trivial = paths where tenant A received at least one PUBLISH"
			rep.Bounds["depth"] = vk.Pick(3, 4)
			rep.Floor("tenant_a_received_publishes", 30, rep.Nontrivial)
		})
}

func withoutPingresp(in []string) []string {
	var out []string
	for _, s := range in {
		if s != "PINGRESP" {
			out = append(out, s)
		}
	}
	return out
}

// TestC17NodeFailure: the failing node hosts will-bearing sessions of both tenants; each tenant's
// watcher on the surviving node must receive exactly its own tenant's wills, under its own names.
func TestC17NodeFailure(t *testing.T) {
	type np struct {
		MountA, MountB string
		WillsA, WillsB int
		Nodes          int
		Graceful       bool // node 1 is stopped gracefully (DisconnectClients) instead of failing
		// Shape of the will topics: plain "status/<k>"; "dotdot" "../<other tenant's mount point>/alerts/<k>" (a topic is a
		// sequence of opaque levels, '..' is a level like any other and names nothing); "empty-levels" "status//<k>/";
		// "leading-slash" "/status/<k>"
		Shape string
	}
	var paths []np
	for _, m := range [][2]string{{"m1", "m2"}, {"m1", "m10"}, {"m10", "m1"}} {
		for _, wa := range []int{1, 2} {
			for _, wb := range []int{1, 2} {
				for _, n := range []int{2, 3} {
					paths = append(paths, np{m[0], m[1], wa, wb, n, false, "plain"})
					if n == 2 {
						paths = append(paths, np{m[0], m[1], wa, wb, n, true, "plain"})
					}
					if wa == wb {
						for _, sh := range []string{"dotdot", "empty-levels", "leading-slash"} {
							if n == 2 || wa == 1 {
								paths = append(paths, np{m[0], m[1], wa, wb, n, false, sh})
							}
							if n == 2 && wa == 1 {
								paths = append(paths, np{m[0], m[1], wa, wb, n, true, sh})
							}
						}
					}
				}
			}
		}
	}
	RunPaths(t, "C17", "C17/node-failure-wills", "TestC17NodeFailure", len(paths), vk.Pick(4*time.Minute, 10*time.Minute),
		func(t *testing.T, i int, rep *vk.Report) {
			p := paths[i]
			RunBubble(t, fmt.Sprintf("p%d", i), func(t *testing.T) {
				w := NewWorld(t, p.Nodes)
				defer w.Close()
				watch := map[string]*Client{}
				for _, mp := range []string{p.MountA, p.MountB} {
					c := w.NewClient("watch-"+mp, 2, AckAll)
					c.Connect(ConnectOpts{ClientID: "watch", KeepAlive: 600, User: "mp:" + mp})
					c.Subscribe(1, 1, "#")
					watch[mp] = c
				}
				want := map[string]map[string]bool{p.MountA: {}, p.MountB: {}}
				// sessions are created alternately so that the failing node's list interleaves the tenants
				for k := 0; k < 2; k++ {
					for _, x := range []struct {
						mp string
						n  int
					}{{p.MountA, p.WillsA}, {p.MountB, p.WillsB}} {
						if k >= x.n {
							continue
						}
						c := w.NewClient(fmt.Sprintf("dying-%s-%d", x.mp, k), 1, AckAll)
						topic := fmt.Sprintf("status/%d", k)
						switch p.Shape {
						case "dotdot":
							other := p.MountA
							if x.mp == p.MountA {
								other = p.MountB
							}
							topic = fmt.Sprintf("../%s/alerts/%d", other, k)
						case "empty-levels":
							topic = fmt.Sprintf("status//%d/", k)
						case "leading-slash":
							topic = fmt.Sprintf("/status/%d", k)
						}
						payload := fmt.Sprintf("will-of-%s-%d", x.mp, k)
						c.Connect(ConnectOpts{ClientID: fmt.Sprintf("dev%d", k), KeepAlive: 600, User: "mp:" + x.mp, WillTopic: topic, WillMsg: payload, WillQos: 1})
						want[x.mp][topic+"|"+payload] = true
					}
				}
				w.Step()
				if p.Graceful {
					// graceful stop: the broker itself ends every session of the node (wills are due: no DISCONNECT was seen)
					w.Node(1).Manager.DisconnectClients(w.Node(1).ctx)
				} else {
					w.Leave(1)
				}
				w.Idle(8 * time.Second)
				Observe(w, rep)
				for mp, c := range watch {
					got := map[string]int{}
					for _, pk := range c.Publishes() {
						got[string(pk.Topic)+"|"+string(pk.Payload)]++
					}
					for k, n := range got {
						if !want[mp][k] {
							rep.Violate(vk.Violation{Sig: "c17-will-crossed-mount-points", Msg: fmt.Sprintf("%+v: the watcher of mount point %s received %s (x%d), which is not a will of its tenant (%v)", p, mp, k, n, keysSorted(want[mp])), Replay: p})
							return
						}
						if n != 1 && !p.Graceful { // how many copies a graceful stop publishes is recorded, not judged (DESIGN 9.7)
							rep.Violate(vk.Violation{Sig: "c17-will-duplicated", Msg: fmt.Sprintf("%+v: %s received %s %d times", p, mp, k, n), Replay: p})
							return
						}
					}
					for k := range want[mp] {
						if got[k] == 0 {
							rep.Violate(vk.Violation{Sig: "c17-will-missing-in-own-mount-point", Msg: fmt.Sprintf("%+v: the watcher of mount point %s did not receive its tenant's will %s; it received %v", p, mp, k, got), Replay: p})
							return
						}
					}
				}
				MarkNontrivial(fmt.Sprintf("%+v", p))
				rep.Nontrivial++
				rep.Sample(p)
			})
		},
		func(i int) any { return paths[i] },
		func(rep *vk.Report) {
			rep.Rule = "2-3 nodes; node 1 hosts 1-2 will-bearing sessions of each of two tenants (mount pairs (m1,m2), (m1,m10), (m10,m1)), created alternately; will topics plain, with a '..' level naming the other tenant's mount point, with empty levels and a trailing slash, with a leading slash; node 1 fails (or is stopped); each tenant's '#' watcher on node 2 must receive exactly its own tenant's wills once each, under the names the clients wrote"
			rep.Floor("paths", 10, rep.Nontrivial)
		})
}

// TestC17CredentialFile: tenants are told apart by the mount point their credentials-file entry names. Every order of
// four entries (two tenants with a mount point, one entry without the third field, one with an empty third field): each
// user then publishes a retained and a live message and subscribes to '#'; a user must see exactly the messages of the
// users that share its mount point (the two entries without a mount point share the default one).
func TestC17CredentialFile(t *testing.T) {
	type entry struct{ user, mount, form string }
	entries := []entry{{"t1", "m1", "named"}, {"t2", "m2", "named"}, {"d1", auth.DefaultMountPoint, "two-fields"}, {"d2", auth.DefaultMountPoint, "empty-third-field"}}
	type cp struct {
		Order []int `json:"order_of_entries"`
	}
	var paths []cp
	var perm func(cur []int, used int)
	perm = func(cur []int, used int) {
		if len(cur) == len(entries) {
			paths = append(paths, cp{append([]int{}, cur...)})
			return
		}
		for k := range entries {
			if used&(1<<k) == 0 {
				perm(append(cur, k), used|1<<k)
			}
		}
	}
	perm(nil, 0)
	scratch := os.Getenv("VERIF_SCRATCH")
	if scratch == "" {
		scratch = os.TempDir()
	}
	fp := func(s string) string { return fmt.Sprintf("%x", sha256.Sum256([]byte(s))) }
	RunPaths(t, "C17", "C17/credential-file-mount-points", "TestC17CredentialFile", len(paths), vk.Pick(4*time.Minute, 10*time.Minute),
		func(t *testing.T, i int, rep *vk.Report) {
			p := paths[i]
			file := filepath.Join(scratch, fmt.Sprintf("c17cred-%d-%d.csv", os.Getpid(), i))
			var lines []string
			for _, k := range p.Order {
				e := entries[k]
				switch e.form {
				case "named":
					lines = append(lines, e.user+":"+fp("pw-"+e.user)+":"+e.mount)
				case "two-fields":
					lines = append(lines, e.user+":"+fp("pw-"+e.user))
				default:
					lines = append(lines, e.user+":"+fp("pw-"+e.user)+":")
				}
			}
			os.WriteFile(file, []byte(strings.Join(lines, "\n")+"\n"), 0o600)
			defer os.Remove(file)
			h, err := auth.FileHandler(file)
			if err != nil {
				rep.Violate(vk.Violation{Sig: "c17-credential-file-not-loadable", Msg: fmt.Sprintf("%v: %v", lines, err), Replay: p})
				return
			}
			AuthOverride = h
			defer func() { AuthOverride = nil }()
			RunBubble(t, fmt.Sprintf("p%d", i), func(t *testing.T) {
				w := NewWorld(t, 1)
				defer w.Close()
				clients := map[string]*Client{}
				// the retained messages are published first, the subscriptions come afterwards (replay), then live messages
				for _, e := range entries {
					c := w.NewClient(e.user, 1, AckAll)
					if c.Connect(ConnectOpts{ClientID: "device", KeepAlive: 600, User: e.user, Password: "pw-" + e.user}) != 0 {
						rep.Violate(vk.Violation{Sig: "c17-configured-user-refused", Msg: fmt.Sprintf("file %v: %s was refused", lines, e.user), Replay: p})
						return
					}
					clients[e.user] = c
					w.Step()
				}
				for _, e := range entries {
					if e.user == "d1" {
						continue // d2 shares its mount point and its client identifier: a legitimate take-over
					}
					clients[e.user].Ping()
					w.Step()
					if clients[e.user].BrokerClosed() || clients[e.user].Count("PINGRESP") != 1 {
						rep.Violate(vk.Violation{Sig: "c17-same-client-id-across-mount-points", Msg: fmt.Sprintf("file %v: %s's session was ended although the other users of its client identifier live in other mount points (or are listed as sharing its own)", lines, e.user), Replay: p})
						return
					}
				}
				_ = clients
			})
			// second world: distinct client identifiers (users sharing the default mount point would displace each other otherwise)
			RunBubble(t, fmt.Sprintf("p%d-b", i), func(t *testing.T) {
				w := NewWorld(t, 1)
				defer w.Close()
				clients := map[string]*Client{}
				for _, e := range entries {
					c := w.NewClient(e.user, 1, AckAll)
					if c.Connect(ConnectOpts{ClientID: "dev-" + e.user, KeepAlive: 600, User: e.user, Password: "pw-" + e.user}) != 0 {
						rep.Violate(vk.Violation{Sig: "c17-configured-user-refused", Msg: fmt.Sprintf("file %v: %s was refused", lines, e.user), Replay: p})
						return
					}
					clients[e.user] = c
					c.Publish("secrets/"+e.user, "retained-of-"+e.user, 0, true, 0)
					w.Step()
				}
				for _, e := range entries {
					clients[e.user].Subscribe(1, 0, "#")
					w.Step()
				}
				for _, e := range entries {
					clients[e.user].Publish("news/"+e.user, "live-of-"+e.user, 0, false, 0)
					w.Step()
				}
				w.Idle(2 * time.Second)
				Observe(w, rep)
				for _, e := range entries {
					want := map[string]bool{}
					for _, o := range entries {
						if o.mount == e.mount {
							want["secrets/"+o.user+"|retained-of-"+o.user] = true
							want["news/"+o.user+"|live-of-"+o.user] = true
						}
					}
					got := map[string]int{}
					for _, pk := range clients[e.user].Publishes() {
						got[string(pk.Topic)+"|"+string(pk.Payload)]++
					}
					for k := range got {
						if !want[k] {
							rep.Violate(vk.Violation{Sig: "c17-credential-file-crossed-mount-points", Msg: fmt.Sprintf("file %v: user %s (mount point %s) received %s, which belongs to another mount point", lines, e.user, e.mount, k), Replay: p})
							return
						}
					}
					for k := range want {
						if got[k] != 1 {
							rep.Violate(vk.Violation{Sig: "c17-credential-file-own-mount-point-incomplete", Msg: fmt.Sprintf("file %v: user %s (mount point %s) received %s %d times, expected once", lines, e.user, e.mount, k, got[k]), Replay: p})
							return
						}
					}
				}
				MarkNontrivial(fmt.Sprint(p))
				rep.Nontrivial++
				rep.Sample(p)
			})
		},
		func(i int) any { return paths[i] },
		func(rep *vk.Report) {
			rep.Rule = "paths = every order of four credentials-file entries (t1 -> m1, t2 -> m2, d1 with two fields, d2 with an empty third field), loaded by the real file handler; all four users connect (first all with one client identifier, then with their own), publish a retained and a live message and subscribe to '#'; each must receive exactly the messages of the users sharing its mount point"
			rep.Floor("paths", 24, rep.Nontrivial)
		})
}
