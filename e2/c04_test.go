package e2

import (
	"fmt"
	"strings"
	"testing"
	"time"

	"github.com/vx-labs/mqtt-protocol/packet"

	"verif/internal/vk"
)

// C04 (whole-broker half): the exchanges of one session are resolved independently of what happens to OTHER sessions.
// One exchange of each kind is in flight (a QoS 1 delivery awaiting PUBACK, a QoS 2 delivery awaiting PUBREC, a QoS 2
// delivery awaiting PUBCOMP, an inbound QoS 2 publish awaiting PUBREL) when another session, which has nothing in flight,
// ends for one of the causes a session can end for, at one of three instants. The pending exchange must then be neither
// given up on before the deadline registered for it (observed at the queue seam: deadline and re-registrations), nor
// resolved twice, nor lost: it is retransmitted after its deadline, completes on its acknowledgement, and an inbound
// QoS 2 publish released just before its deadline is forwarded exactly once.

type c04path struct {
	Pending string `json:"pending_exchange"`
	Cause   string `json:"other_session_ends_by"`
	AfterMs int    `json:"ms_after_registration"`
}

func c04paths() []c04path {
	var out []c04path
	// an exchange nobody acknowledges ends by its deadline whatever else is (not) going on on the node: an inbound QoS 2
	// publish released three seconds AFTER the deadline registered for it finds no exchange any more
	for _, cause := range []string{"none", "connection-lost"} {
		out = append(out, c04path{"inbound-qos2-released-late", cause, 100})
	}
	for _, pe := range []string{"qos1-awaiting-puback", "qos2-awaiting-pubrec", "qos2-awaiting-pubcomp", "inbound-qos2-awaiting-pubrel"} {
		for _, cause := range []string{"none", "connection-lost", "disconnect", "displaced", "protocol-error", "refused-connect"} {
			for _, ms := range []int{100, 1200, 2300} {
				if cause == "none" && ms != 100 {
					continue
				}
				out = append(out, c04path{pe, cause, ms})
			}
		}
	}
	return out
}

func TestC04OtherSessionEnds(t *testing.T) {
	paths := c04paths()
	RunPaths(t, "C04", "C04/other-session-ends", "TestC04OtherSessionEnds", len(paths), vk.Pick(4*time.Minute, 10*time.Minute),
		func(t *testing.T, i int, rep *vk.Report) {
			p := paths[i]
			RunBubble(t, fmt.Sprintf("p%d", i), func(t *testing.T) {
				w := NewWorld(t, 1)
				defer w.Close()
				viol := func(sig, format string, a ...any) {
					rep.Violate(vk.Violation{Sig: sig, Msg: fmt.Sprintf("%+v: ", p) + fmt.Sprintf(format, a...), Replay: p})
				}
				sub := w.NewClient("sub", 1, AckNone)
				if sub.Connect(ConnectOpts{ClientID: "sub", KeepAlive: 600}) != 0 {
					rep.HarnessError("connect failed")
					return
				}
				// the broker delivers at the QoS of the subscription
				sub.Subscribe(1, 1, "t1/#")
				sub.Subscribe(2, 2, "t2/#")
				topic := "t2/x"
				if p.Pending == "qos1-awaiting-puback" {
					topic = "t1/x"
				}
				other := w.NewClient("other", 1, AckAll)
				other.Connect(ConnectOpts{ClientID: "other", KeepAlive: 600})
				other.Subscribe(1, 1, "elsewhere/#")
				watch := w.NewClient("watch", 1, AckAll)
				watch.Connect(ConnectOpts{ClientID: "watch", KeepAlive: 600})
				watch.Subscribe(1, 0, "in/#")
				pub := w.NewClient("pub", 1, AckNone)
				pub.Connect(ConnectOpts{ClientID: "pub", KeepAlive: 600})
				w.Step()
				start := time.Now()
				// put the exchange in flight
				copies := func() (n int, id int32) {
					for _, r := range sub.Received() {
						switch pk := r.Pkt.(type) {
						case *packet.Publish:
							if p.Pending != "qos2-awaiting-pubcomp" && string(pk.Topic) == topic {
								n++
								id = pk.MessageId
							}
						case *packet.PubRel:
							if p.Pending == "qos2-awaiting-pubcomp" {
								n++
								id = pk.MessageId
							}
						}
					}
					return
				}
				switch p.Pending {
				case "qos1-awaiting-puback":
					pub.Publish(topic, "m", 1, false, 7)
				case "qos2-awaiting-pubrec", "qos2-awaiting-pubcomp":
					pub.Publish(topic, "m", 2, false, 7)
					w.Step()
					pub.Send(&packet.PubRel{Header: &packet.Header{}, MessageId: 7})
				case "inbound-qos2-awaiting-pubrel", "inbound-qos2-released-late":
					pub.Publish("in/x", "m", 2, false, 7)
				}
				w.Step()
				if p.Pending == "qos2-awaiting-pubcomp" {
					var id int32 = -1
					for _, pk := range sub.Publishes() {
						if string(pk.Topic) == topic {
							id = pk.MessageId
						}
					}
					if id < 0 {
						viol("c04-wire-initial-delivery-missing", "the QoS 2 delivery never reached the subscriber")
						return
					}
					sub.Send(&packet.PubRec{Header: &packet.Header{}, MessageId: id})
					w.Step()
				}
				n0, id := 0, int32(0)
				if !strings.HasPrefix(p.Pending, "inbound-qos2") {
					n0, id = copies()
					if n0 != 1 {
						viol("c04-wire-initial-delivery-missing", "expected exactly one copy of the pending packet at the subscriber, saw %d", n0)
						return
					}
				}
				// the registration under observation: the last one the queue accepted
				w.mu.Lock()
				var reg AckInsert
				for _, ai := range w.Node(1).AckInserts {
					if ai.Err == "" {
						reg = ai
					}
				}
				nIns := len(w.Node(1).AckInserts)
				w.mu.Unlock()
				if reg.Deadline.IsZero() {
					rep.HarnessError("no registration observed at the queue seam")
					return
				}
				// the other session ends
				w.Idle(time.Duration(p.AfterMs)*time.Millisecond - time.Since(reg.At))
				switch p.Cause {
				case "connection-lost":
					other.Drop()
				case "disconnect":
					other.Disconnect()
				case "displaced":
					again := w.NewClient("other-again", 1, AckAll)
					again.Connect(ConnectOpts{ClientID: "other", KeepAlive: 600})
					w.Step()
					other.Ping()
				case "protocol-error":
					other.Send(&packet.Connect{Header: &packet.Header{}, ClientId: []byte("other"), KeepaliveTimer: 60, Clean: true})
				case "refused-connect":
					bad := w.NewClient("bad", 1, AckAll)
					bad.Connect(ConnectOpts{ClientID: "bad", KeepAlive: 600, User: "bad"})
				}
				w.Step()
				// up to one second before the registered deadline nothing may have happened to the exchange
				w.Idle(time.Until(reg.Deadline.Add(-1100 * time.Millisecond)))
				w.mu.Lock()
				later := append([]AckInsert{}, w.Node(1).AckInserts[nIns:]...)
				w.mu.Unlock()
				for _, ai := range later {
					if ai.Session == reg.Session && ai.ID == reg.ID {
						viol("c04-wire-resolved-before-its-deadline", "the exchange registered at +%v with deadline +%v (session %s, identifier %d) was registered again at +%v, after another session ended (%s): it was given up on %.1f s early",
							reg.At.Sub(start), reg.Deadline.Sub(start), reg.Session, reg.ID, ai.At.Sub(start), p.Cause, reg.Deadline.Sub(ai.At).Seconds())
						return
					}
				}
				if p.Pending == "inbound-qos2-released-late" {
					w.Idle(time.Until(reg.Deadline) + 3*time.Second)
					pub.Send(&packet.PubRel{Header: &packet.Header{}, MessageId: 7})
					w.Idle(2 * time.Second)
					got := 0
					for _, pk := range watch.Publishes() {
						if string(pk.Topic) == "in/x" {
							got++
						}
					}
					if got != 0 || pub.Has("PUBCOMP(7)") {
						viol("c04-wire-exchange-outlives-its-deadline", "the publisher released its QoS 2 publish 3 s after the deadline registered for the exchange (nothing else was in flight on the node); the exchange was still there: the matching subscriber received %d copies, PUBCOMP sent: %v", got, pub.Has("PUBCOMP(7)"))
						return
					}
				} else if p.Pending == "inbound-qos2-awaiting-pubrel" {
					// released in time: forwarded exactly once, completed
					pub.Send(&packet.PubRel{Header: &packet.Header{}, MessageId: 7})
					w.Idle(2 * time.Second)
					got := 0
					for _, pk := range watch.Publishes() {
						if string(pk.Topic) == "in/x" {
							got++
						}
					}
					if got != 1 {
						viol("c04-wire-inbound-qos2-lost", "the publisher released its QoS 2 publish %.1f s before the deadline registered for it, the matching subscriber received %d copies (another session had ended by %s in between)", 1.1, got, p.Cause)
						return
					}
					if !pub.Has("PUBCOMP(7)") {
						viol("c04-wire-inbound-qos2-not-completed", "no PUBCOMP after a PUBREL sent before the deadline; publisher inbox %s", pub.InboxDigest())
						return
					}
				} else {
					if n, _ := copies(); n != n0 {
						viol("c04-wire-retransmitted-before-its-deadline", "%d more copies of the pending packet were sent more than a second before the registered deadline", n-n0)
						return
					}
					// silent past the deadline: sent again
					w.Idle(time.Until(reg.Deadline) + 2500*time.Millisecond)
					n1, _ := copies()
					if n1 <= n0 {
						viol("c04-wire-not-retransmitted", "2.5 s after its deadline the pending packet had not been sent again (copies %d -> %d)", n0, n1)
						return
					}
					// acknowledged: over, exactly once
					switch p.Pending {
					case "qos1-awaiting-puback":
						sub.Send(&packet.PubAck{Header: &packet.Header{}, MessageId: id})
					case "qos2-awaiting-pubrec":
						sub.Send(&packet.PubRec{Header: &packet.Header{}, MessageId: id})
						w.Step()
						sub.Send(&packet.PubComp{Header: &packet.Header{}, MessageId: id})
					case "qos2-awaiting-pubcomp":
						sub.Send(&packet.PubComp{Header: &packet.Header{}, MessageId: id})
					}
					w.Step()
					n2, _ := copies()
					w.Idle(12 * time.Second)
					if n3, _ := copies(); n3 != n2 {
						viol("c04-wire-sent-after-completion", "the exchange was acknowledged (identifier %d), yet %d more copies were sent during the next 12 s; subscriber inbox %s", id, n3-n2, sub.InboxDigest())
						return
					}
				}
				MarkNontrivial(fmt.Sprint(p))
				rep.Nontrivial++
				if i%6 == 0 {
					rep.Sample(p)
				}
			})
		},
		func(i int) any { return paths[i] },
		func(rep *vk.Report) {
			rep.Rule = "one exchange of each kind in flight for one session while another session (nothing in flight) ends by each cause at +0.1 / +1.2 / +2.3 s; the exchange is not registered again nor retransmitted earlier than one second before the deadline the implementation registered (queue seam), is retransmitted after it, ends on its acknowledgement; an inbound QoS 2 publish released 1.1 s before its deadline is forwarded exactly once and completed"
			rep.Floor("paths", int64(len(paths)), rep.Nontrivial)
		})
}
