package e2

import (
	"crypto/sha256"
	"fmt"
	"os"
	"path/filepath"
	"sort"
	"strings"
	"testing"
	"testing/synctest"
	"time"

	"github.com/vx-labs/mqtt-protocol/packet"
	"github.com/vx-labs/wasp/v4/wasp/auth"

	"verif/internal/vk"
)

// ---------------- C01: bytes on the wire ----------------

type c01wpath struct {
	Nodes     int      `json:"nodes"`
	Filters   []string `json:"initial_filters"`
	Events    []string `json:"events"` // sub:<f> / unsub:<f>
	OnePacket bool     `json:"initial_filters_in_one_subscribe_packet"`
	// Env is something that happens around the subscribed session before the publishes and must not cost it a delivery:
	// "peer-update" (every node is told, as after a change of a peer's advertised address, that each other node joined),
	// "same-client-id-in-other-tenant" (a client of another mount point connects with the session's client identifier)
	Env string `json:"environment_event,omitempty"`
}

var c01wFilters = []string{"a", "a/b", "+", "+/b", "a/+", "#", "a/#", "a/b/#", "+/+", "b/#"}
var c01wTopics = []string{"a", "a/b", "a/b/c", "b", "c/b", "a/$b"} // (a level beginning with '$' below the first is an ordinary level)

func c01wpaths() []c01wpath {
	var out []c01wpath
	// a third node fails while the session's subscriptions are still in its node's transmit queue: what the node queues
	// because of the failure (now and when it purges the failed node's sessions 3 s later) must not cost them their delivery
	for _, f1 := range c01wFilters {
		out = append(out, c01wpath{3, []string{f1}, nil, false, "peer-failure-while-subscriptions-are-queued"})
	}
	for _, n := range []int{1, 2} {
		for _, f1 := range c01wFilters {
			out = append(out, c01wpath{n, []string{f1}, nil, false, ""})
			out = append(out, c01wpath{n, []string{f1}, nil, false, "same-client-id-in-other-tenant"})
			// on every node a session subscribed to '#' before everybody else (so listed first) whose connection fails
			// every write from the moment of the publishes on, and is still registered: that delivery fails, no other does
			out = append(out, c01wpath{n, []string{f1}, nil, false, "an-earlier-recipient's-writes-fail"})
			// the message recorder (tap) is slower than the publisher: a burst of 48 publishes while it takes 1 s per message
			out = append(out, c01wpath{n, []string{f1}, nil, false, "slow-message-recorder"})
			if n == 2 {
				out = append(out, c01wpath{n, []string{f1}, nil, false, "peer-update"})
				// nothing else ever happens on the publisher's node: no session subscribes there, no subscription is created
				// there; all it learns about subscriptions comes from the other node's gossip
				out = append(out, c01wpath{n, []string{f1}, nil, false, "quiet-publisher-node"})
				// the answer to the first forwarded publish is lost (the peer stored it, the connection broke afterwards)
				out = append(out, c01wpath{n, []string{f1}, nil, false, "first-forward-answer-lost"})
			}
			for _, f2 := range c01wFilters {
				if f1 != f2 {
					out = append(out, c01wpath{n, []string{f1, f2}, nil, false, ""})
					if n == 1 {
						out = append(out, c01wpath{n, []string{f1, f2}, nil, true, ""})
					} else {
						out = append(out, c01wpath{n, []string{f1, f2}, nil, false, "peer-update"})
					}
				}
			}
		}
		var evs []string
		for _, f := range []string{"a/#", "+/b", "a/b"} {
			evs = append(evs, "sub:"+f, "unsub:"+f)
		}
		depth := vk.Pick(4, 5)
		if n == 2 {
			depth--
		}
		var rec func(cur []string)
		rec = func(cur []string) {
			if len(cur) >= 2 {
				out = append(out, c01wpath{n, nil, append([]string{}, cur...), false, ""})
				if len(cur) == 2 {
					out = append(out, c01wpath{n, nil, append([]string{}, cur...), false, "same-client-id-in-other-tenant"})
					if n == 2 {
						out = append(out, c01wpath{n, nil, append([]string{}, cur...), false, "peer-update"})
					}
				}
			}
			if len(cur) == depth {
				return
			}
			for _, e := range evs {
				rec(append(cur, e))
			}
		}
		rec(nil)
	}
	return out
}

func TestC01Wire(t *testing.T) {
	paths := c01wpaths()
	RunPaths(t, "C01", "C01/wire", "TestC01Wire", len(paths), vk.Pick(8*time.Minute, 30*time.Minute),
		func(t *testing.T, i int, rep *vk.Report) {
			p := paths[i]
			RunBubble(t, fmt.Sprintf("p%d", i), func(t *testing.T) {
				w := NewWorld(t, p.Nodes)
				defer w.Close()
				viol := func(sig, format string, a ...any) {
					rep.Violate(vk.Violation{Sig: sig, Msg: fmt.Sprintf("%+v: ", p) + fmt.Sprintf(format, a...), Replay: p})
				}
				s1 := w.NewClient("s1", 1, AckAll)
				s1.Connect(ConnectOpts{ClientID: "s1", KeepAlive: 600})
				other := p.Nodes
				if other == 3 {
					other = 2 // node 3 is the one that fails
				}
				s2 := w.NewClient("s2", other, AckAll)
				s2.Connect(ConnectOpts{ClientID: "s2", KeepAlive: 600})
				// every topic is published once while nobody is subscribed to anything (whatever a node remembers about a
				// topic without subscribers must not outlive the arrival of one)
				pub := w.NewClient("pub", other, AckAll)
				pub.Connect(ConnectOpts{ClientID: "pub", KeepAlive: 600})
				w.Step()
				for _, tp := range c01wTopics {
					pub.Publish(tp, "early", 0, false, 0)
				}
				w.Step()
				// subscriptions of a session that is not connected anywhere (created through the node's RPC API, as
				// waspctl does): they come first in every filter's list and must not cost the live sessions anything
				for _, f := range append(append([]string{}, c01wFilters...), "a/#", "+/b", "a/b", "#") {
					if p.Env == "quiet-publisher-node" {
						break
					}
					for _, n := range w.Nodes {
						n.DState.Subscriptions().CreateFrom("ghost", n.ID, []byte("_default/"+f), 1)
					}
				}
				w.Step()
				if p.Env == "peer-failure-while-subscriptions-are-queued" {
					w.PumpGossip()
					w.GossipLazy = true
					w.Leave(3)
				}
				var bad []*Client
				if p.Env == "an-earlier-recipient's-writes-fail" {
					for k := range w.Nodes {
						b := w.NewClient(fmt.Sprintf("bad-%d", k+1), k+1, AckAll)
						b.Connect(ConnectOpts{ClientID: b.Name, KeepAlive: 600})
						b.Subscribe(1, int32(k%2), "#") // QoS 0 on node 1, QoS 1 on node 2
						bad = append(bad, b)
					}
					w.Step()
				}
				s2filters := []string{"+/b", "#"}
				if p.Env == "quiet-publisher-node" {
					s2filters = nil
				} else {
					s2.Subscribe(1, 0, "+/b")
					s2.Subscribe(2, 0, "#")
				}
				active := map[string]bool{}
				mid := int32(10)
				if p.OnePacket {
					mid++
					s1.Subscribe(mid, 0, p.Filters...)
					for _, f := range p.Filters {
						active[f] = true
					}
					w.Step()
				} else {
					for _, f := range p.Filters {
						mid++
						s1.Subscribe(mid, 0, f)
						active[f] = true
						w.Step()
					}
				}
				for _, e := range p.Events {
					mid++
					f := e[strings.Index(e, ":")+1:]
					if strings.HasPrefix(e, "sub:") {
						s1.Subscribe(mid, 0, f)
						active[f] = true
					} else {
						s1.Unsubscribe(mid, f)
						delete(active, f)
					}
					w.Step()
					Observe(w, rep)
				}
				switch p.Env {
				case "peer-failure-while-subscriptions-are-queued":
					w.Idle(4 * time.Second) // the delayed purge of the failed node's sessions has been queued too
					w.GossipLazy = false
					w.PumpGossip()
					w.Step()
				case "peer-update":
					w.JoinNotices()
					w.Step()
				case "same-client-id-in-other-tenant":
					for k := range w.Nodes {
						o := w.NewClient(fmt.Sprintf("other-tenant-%d", k), k+1, AckAll)
						o.Connect(ConnectOpts{ClientID: "s1", KeepAlive: 600, User: "mp:elsewhere"})
						w.Step()
					}
				}
				if p.Env == "first-forward-answer-lost" {
					w.LoseNextResponse(2, 1)
				}
				if s1.BrokerClosed() {
					viol("c01-wire-session-ended", "after %q the broker ended the subscribed session", p.Env)
					return
				}
				for _, b := range bad {
					b.FailBrokerWrites(true)
				}
				rounds := 1
				if p.Env == "slow-message-recorder" {
					rounds = 8
					w.SlowTap(time.Second)
				}
				for r := 0; r < rounds; r++ {
					for k, tp := range c01wTopics {
						pub.Publish(tp, fmt.Sprintf("p%d", k), 0, false, 0)
						if rounds == 1 {
							w.Step()
						}
					}
				}
				w.Step()
				w.SlowTap(0)
				w.Idle(2 * time.Second)
				Observe(w, rep)
				matchesSeen := false
				for k, tp := range c01wTopics {
					count := func(c *Client) int {
						n := 0
						for _, pk := range c.Publishes() {
							if string(pk.Topic) == tp && string(pk.Payload) == fmt.Sprintf("p%d", k) {
								n++
							}
						}
						return n
					}
					want := 0
					for f := range active {
						if refMatchTopic(f, tp) {
							want++
						}
					}
					if want > 0 {
						matchesSeen = true
					}
					want *= rounds
					if got := count(s1); got != want {
						sig := "c01-wire-missing"
						if got > want {
							sig = "c01-wire-extra"
						}
						viol(sig, "topic %q: session with active filters %v received %d copies, expected one per matching subscription = %d", tp, keys(active), got, want)
						return
					}
					want2 := 0
					for _, f := range s2filters {
						if refMatchTopic(f, tp) {
							want2++
						}
					}
					want2 *= rounds
					if got := count(s2); got != want2 {
						viol("c01-wire-other-session", "topic %q: the other session (filters +/b, #) received %d copies, expected %d", tp, got, want2)
						return
					}
				}
				for _, c := range []*Client{s1, s2} {
					for _, pk := range c.Publishes() {
						ok := false
						for k, tp := range c01wTopics {
							if string(pk.Topic) == tp && string(pk.Payload) == fmt.Sprintf("p%d", k) {
								ok = true
							}
						}
						if !ok {
							viol("c01-wire-altered", "%s received %s, which nobody published", c.Name, DescribePacket(pk))
							return
						}
					}
				}
				if matchesSeen {
					MarkNontrivial(fmt.Sprintf("%+v", p))
					rep.Nontrivial++
				}
				if i%397 == 0 {
					rep.Sample(p)
				}
			})
		},
		func(i int) any { return paths[i] },
		func(rep *vk.Report) {
			rep.Rule = "paths = a session holding one or an ordered pair of 10 representative filters, or reaching its active set through a subscribe/unsubscribe/re-subscribe history over {a/#, +/b, a/b}; another session holds {+/b, #}; then 5 topics are published (QoS 0) on 1 and 2 nodes; per topic each session must receive exactly one PUBLISH per matching active subscription, verbatim; non-trivial = paths with at least one match"
			rep.Floor("paths_with_matches", 50, rep.Nontrivial)
		})
}

// ---------------- C07: retained messages on the wire ----------------

type c07wpath struct {
	Nodes  int      `json:"nodes"`
	Events []string `json:"events"`
}

func c07wpaths() []c07wpath {
	var evs []string
	for _, tp := range []string{"a", "a/b"} {
		for _, r := range []string{"r", "-"} {
			for _, pl := range []string{"x", "y", "0"} {
				evs = append(evs, fmt.Sprintf("pub:%s:%s:%s", tp, r, pl))
			}
		}
	}
	for _, f := range []string{"a", "a/b", "+/b", "#", "a/#"} {
		evs = append(evs, "sub:"+f)
	}
	// a retained will (with a payload, or empty: it clears the topic) published because its client's connection dropped
	evs = append(evs, "will:a/b:r:x", "will:a/b:r:0")
	// several filters in one SUBSCRIBE packet (each is a subscription of its own), incl. one matching nothing
	for _, f := range []string{"zz/y,a/b", "a/b,zz/y", "a,+/b", "zz/y,#", "a/#,a/b"} {
		evs = append(evs, "sub:"+f)
	}
	var out []c07wpath
	for _, n := range []int{1, 2} {
		depth := vk.Pick(3, 4)
		if n == 2 {
			depth = vk.Pick(2, 3)
		}
		var rec func(cur []string)
		rec = func(cur []string) {
			if len(cur) > 0 && strings.HasPrefix(cur[len(cur)-1], "sub:") {
				out = append(out, c07wpath{n, append([]string{}, cur...)})
			}
			if len(cur) == depth {
				return
			}
			for _, e := range evs {
				rec(append(cur, e))
			}
		}
		rec(nil)
	}
	return out
}

func TestC07Wire(t *testing.T) {
	paths := c07wpaths()
	RunPaths(t, "C07", "C07/wire", "TestC07Wire", len(paths), vk.Pick(8*time.Minute, 30*time.Minute),
		func(t *testing.T, i int, rep *vk.Report) {
			p := paths[i]
			RunBubble(t, fmt.Sprintf("p%d", i), func(t *testing.T) {
				w := NewWorld(t, p.Nodes)
				defer w.Close()
				viol := func(sig, format string, a ...any) {
					rep.Violate(vk.Violation{Sig: sig, Msg: fmt.Sprintf("%+v: ", p) + fmt.Sprintf(format, a...), Replay: p})
				}
				early := w.NewClient("early", 1, AckAll)
				early.Connect(ConnectOpts{ClientID: "early", KeepAlive: 600})
				early.Subscribe(1, 0, "#")
				late := w.NewClient("late", p.Nodes, AckAll)
				late.Connect(ConnectOpts{ClientID: "late", KeepAlive: 600})
				pub := w.NewClient("pub", 1, AckAll)
				pub.Connect(ConnectOpts{ClientID: "pub", KeepAlive: 600})
				w.Step()
				retained := map[string]string{}
				lateActive := map[string]bool{}
				mid := int32(10)
				sawReplay := false
				for k, e := range p.Events {
					parts := strings.Split(e, ":")
					e0, l0 := len(early.Received()), len(late.Received())
					switch parts[0] {
					case "pub", "will":
						payload := parts[3] + fmt.Sprint(k)
						if parts[3] == "0" {
							payload = ""
						}
						if parts[0] == "will" {
							wc := w.NewClient(fmt.Sprintf("will%d", k), 1, AckAll)
							if wc.Connect(ConnectOpts{ClientID: wc.Name, KeepAlive: 600, WillTopic: parts[1], WillMsg: payload, WillRetain: parts[2] == "r"}) != 0 {
								rep.HarnessError("connect with will failed")
								return
							}
							w.Step()
							e0, l0 = len(early.Received()), len(late.Received())
							wc.Drop()
							w.Step()
						} else {
							pub.Publish(parts[1], payload, 0, parts[2] == "r", 0)
							w.Step()
						}
						if parts[2] == "r" {
							if payload == "" {
								delete(retained, parts[1])
							} else {
								retained[parts[1]] = payload
							}
						}
						// live copies: retain bit clear
						got := early.Received()[e0:]
						if len(got) != 1 {
							viol("c07-live-copy-count", "event %d (%s): the early subscriber (#) received %d packets, expected exactly 1 live copy: %v", k, e, len(got), got)
							return
						}
						pk, ok := got[0].Pkt.(*packet.Publish)
						if !ok || string(pk.Topic) != parts[1] || string(pk.Payload) != payload {
							viol("c07-live-copy-altered", "event %d (%s): live copy is %s", k, e, got[0])
							return
						}
						if pk.Header.Retain {
							viol("c07-live-copy-flagged-retained", "event %d (%s): the live copy sent to an existing subscriber carries the retain flag", k, e)
							return
						}
						for _, r := range late.Received()[l0:] {
							if lp, ok := r.Pkt.(*packet.Publish); ok && lp.Header.Retain {
								viol("c07-live-copy-flagged-retained", "event %d (%s): a live copy to the late subscriber carries the retain flag", k, e)
								return
							}
						}
					case "sub":
						mid++
						subFilters := strings.Split(parts[1], ",")
						late.Subscribe(mid, 0, subFilters...)
						for _, f := range subFilters {
							lateActive[f] = true
						}
						w.Step()
						got := late.Received()[l0:]
						if len(got) == 0 || got[0].String() != fmt.Sprintf("SUBACK(%d)", mid) {
							viol("c07-suback-not-first", "event %d (%s): expected SUBACK first, got %v", k, e, got)
							return
						}
						var have, want []string
						for _, r := range got[1:] {
							lp, ok := r.Pkt.(*packet.Publish)
							if !ok {
								viol("c07-unexpected-packet-after-suback", "event %d (%s): %s", k, e, r)
								return
							}
							if !lp.Header.Retain {
								viol("c07-replay-not-flagged", "event %d (%s): replayed %s without the retain flag", k, e, r)
								return
							}
							have = append(have, string(lp.Topic)+"="+string(lp.Payload))
						}
						for _, f := range subFilters {
							for tp, pl := range retained {
								if refMatchTopic(f, tp) {
									want = append(want, tp+"="+pl)
								}
							}
						}
						sort.Strings(have)
						sort.Strings(want)
						if strings.Join(have, ",") != strings.Join(want, ",") {
							sig := "c07-replay-wrong"
							if len(have) < len(want) {
								sig = "c07-replay-missing"
							} else if len(have) > len(want) {
								sig = "c07-replay-extra"
							}
							viol(sig, "event %d (%s): right after SUBACK the new subscriber received retained %v, the last non-empty retained payloads matching %q are %v", k, e, have, parts[1], want)
							return
						}
						if len(want) > 0 {
							sawReplay = true
						}
					}
					Observe(w, rep)
				}
				if sawReplay {
					MarkNontrivial(fmt.Sprintf("%+v", p))
					rep.Nontrivial++
				}
				if i%499 == 0 {
					rep.Sample(p)
				}
			})
		},
		func(i int) any { return paths[i] },
		func(rep *vk.Report) {
			rep.Rule = "paths = event sequences over publish(topic a|a/b, retain or not, payload x|y|empty), retained will of a dropped connection (payload x|empty) and subscribe(late, a|a/b|+/b|#|a/#) ending in a subscribe, on 1 node and with the late subscriber on a second node; the packets the late subscriber reads during the subscribe step must be SUBACK followed by exactly one retain-flagged PUBLISH per matching topic with a non-empty last retained payload; live copies carry no retain flag; non-trivial = paths with at least one expected replay"
			rep.Floor("paths_with_replay", 50, rep.Nontrivial)
		})
}

// ---------------- C16: the credential stores behind a real CONNECT ----------------

type c16wpath struct {
	Store  string `json:"store"`
	Nodes  int    `json:"nodes"`
	User   string `json:"user"`
	Pass   string `json:"password"`
	Follow string `json:"follow_up"`
	// NoClientID: the CONNECT carries a zero-length client identifier (the broker may give it one of its own)
	NoClientID bool `json:"zero_length_client_id,omitempty"`
}

const c16token = "tok-0123456789abcdef0123456789abcdef-0123456789" // a password of token length

func c16wpaths() []c16wpath {
	var out []c16wpath
	cands := [][2]string{{"alice", "pw-alice"}, {"bob", "pw-bob"}, {"carol", "pw-carol"}, {"alice", "pw-bob"}, {"alice", ""}, {"", "pw-alice"}, {"", ""}, {"mallory", "x"}, {"pw-alice", "alice"}, {"bob", "wrong"}, {"eve", ""}, {"locked", ""}, {"eve", "x"}, {"tok", c16token}, {"tok", c16token[:len(c16token)-1]}}
	for _, store := range []string{"file", "static"} {
		for _, n := range []int{1, 2} {
			for _, c := range cands {
				for _, f := range []string{"subscribe", "will-drop", "publish-retained", "nothing"} {
					out = append(out, c16wpath{store, n, c[0], c[1], f, false})
					if f == "subscribe" || f == "nothing" {
						out = append(out, c16wpath{store, n, c[0], c[1], f, true})
					}
				}
			}
		}
	}
	return out
}

func TestC16Wire(t *testing.T) {
	paths := c16wpaths()
	scratch := os.Getenv("VERIF_SCRATCH")
	if scratch == "" {
		scratch = os.TempDir()
	}
	file := filepath.Join(scratch, fmt.Sprintf("cred-%d.csv", os.Getpid()))
	fp := func(s string) string { return fmt.Sprintf("%x", sha256.Sum256([]byte(s))) }
	os.WriteFile(file, []byte("carol:"+fp("pw-carol")+":\nalice:"+fp("pw-alice")+":m1\nbob:"+fp("pw-bob")+"\nlocked:\neve:"+fp("")+"\ntok:"+fp(c16token)+"\n"), 0o600)
	defer os.Remove(file)
	table := map[string][2]string{"alice": {"pw-alice", "m1"}, "bob": {"pw-bob", auth.DefaultMountPoint}, "carol": {"pw-carol", auth.DefaultMountPoint}, "eve": {"", auth.DefaultMountPoint}, "tok": {c16token, auth.DefaultMountPoint}}
	RunPaths(t, "C16", "C16/wire", "TestC16Wire", len(paths), vk.Pick(6*time.Minute, 20*time.Minute),
		func(t *testing.T, i int, rep *vk.Report) {
			p := paths[i]
			var h auth.AuthenticationHandler
			var err error
			want, wantMount := false, ""
			if p.Store == "file" {
				h, err = auth.FileHandler(file)
				if e, ok := table[p.User]; ok && e[0] == p.Pass {
					want, wantMount = true, e[1]
				}
			} else {
				h, err = auth.StaticHandler("alice", "pw-alice")
				want, wantMount = p.User == "alice" && p.Pass == "pw-alice", auth.DefaultMountPoint
			}
			if err != nil {
				rep.Violate(vk.Violation{Sig: "c16-store-not-loadable", Msg: err.Error(), Replay: p})
				return
			}
			AuthOverride = h
			defer func() { AuthOverride = nil }()
			RunBubble(t, fmt.Sprintf("p%d", i), func(t *testing.T) {
				w := NewWorld(t, p.Nodes)
				defer w.Close()
				viol := func(sig, format string, a ...any) {
					rep.Violate(vk.Violation{Sig: sig, Msg: fmt.Sprintf("%+v: ", p) + fmt.Sprintf(format, a...), Replay: p})
				}
				// a resident of each mount point watches everything
				resDefault := w.NewClient("res-default", p.Nodes, AckAll)
				resOK := true
				if p.Store == "file" {
					resOK = resDefault.Connect(ConnectOpts{ClientID: "res-default", KeepAlive: 600, User: "bob", Password: "pw-bob"}) == 0
				} else {
					resOK = resDefault.Connect(ConnectOpts{ClientID: "res-default", KeepAlive: 600, User: "alice", Password: "pw-alice"}) == 0
				}
				if !resOK {
					viol("c16-valid-credentials-refused", "the resident client with configured credentials was refused")
					return
				}
				resDefault.Subscribe(1, 0, "#")
				w.Step()
				before := w.Node(1).View()
				c := w.NewClient("candidate", 1, AckAll)
				cid := "cand"
				if p.NoClientID {
					cid = ""
				}
				rc := c.Connect(ConnectOpts{ClientID: cid, KeepAlive: 600, User: p.User, UserPresent: true, Password: p.Pass, WillTopic: "will/t", WillMsg: "cand-will"})
				w.Step()
				Observe(w, rep)
				if want && rc != 0 {
					viol("c16-valid-credentials-refused", "CONNACK %d for a configured (user, password) pair", rc)
					return
				}
				if !want && rc == 0 {
					viol("c16-invalid-credentials-accepted", "CONNACK 0 although (%q, %q) matches no entry", p.User, p.Pass)
					return
				}
				if !want && rc <= 0 {
					viol("c16-no-refusal-connack", "a refused CONNECT must get a refusal CONNACK, got code %d (-1 = none)", rc)
					return
				}
				switch p.Follow {
				case "subscribe":
					c.Subscribe(5, 0, "#")
				case "publish-retained":
					c.Publish("r/t", "cand-retained", 0, true, 0)
				case "will-drop":
					c.Drop()
				}
				w.Step()
				w.Idle(2 * time.Second)
				Observe(w, rep)
				if !want {
					for _, n := range w.Nodes {
						v := n.View()
						b := before
						if n.ID != 1 {
							b = v
							b.LocalSessions = nil
						}
						if len(v.Sessions) != 1 || len(v.Subscriptions) != 1 || len(v.Retained) != 0 {
							viol("c16-refused-connect-left-state", "after a refused CONNECT followed by %s node %d lists %s (before: %s)", p.Follow, n.ID, v, before)
							return
						}
						_ = b
					}
					if n := len(resDefault.Publishes()); n != 0 {
						viol("c16-refused-connect-published", "after a refused CONNECT followed by %s a resident received %s", p.Follow, resDefault.InboxDigest())
						return
					}
					// a refusal says nothing about the next client: 25 clients with configured credentials (more than there are
					// connection set-up workers, so every worker that handled the refusal handles one of them) are all admitted
					if p.Follow == "nothing" && p.Nodes == 1 {
						for k := 0; k < 25; k++ {
							vc := w.NewClient(fmt.Sprintf("valid-%d", k), 1, AckAll)
							u, pw := "alice", "pw-alice"
							if p.Store == "file" {
								u, pw = "bob", "pw-bob"
							}
							if rc := vc.Connect(ConnectOpts{ClientID: vc.Name, KeepAlive: 600, User: u, Password: pw}); rc != 0 {
								viol("c16-valid-credentials-refused:after-a-refusal", "after (%q, %q) was refused, client %d of 25 presenting configured credentials got CONNACK %d", p.User, p.Pass, k+1, rc)
								return
							}
						}
						rep.Extra["runs_with_25_admissions_after_a_refusal"] = asInt(rep.Extra["runs_with_25_admissions_after_a_refusal"]) + 1
					}
				} else {
					found := false
					for _, s := range w.Node(1).DState.SessionMetadatas().All() {
						if s.ClientID == "cand" || (p.NoClientID && s.ClientID != "res-default") { // (a zero-length client identifier may have been replaced by the broker)
							found = true
							if s.MountPoint != wantMount {
								viol("c16-wrong-mount-point", "accepted session lives in mount point %q, the entry says %q", s.MountPoint, wantMount)
								return
							}
						}
					}
					if !found && p.Follow != "will-drop" {
						viol("c16-accepted-session-not-listed", "no session record for the accepted client")
						return
					}
					// topic isolation follows the mount point: the default-mount resident sees the candidate's will / retained iff same mount
					if p.Follow == "will-drop" {
						got := 0
						for _, pk := range resDefault.Publishes() {
							if string(pk.Payload) == "cand-will" {
								got++
							}
						}
						wantGot := 0
						if wantMount == auth.DefaultMountPoint {
							wantGot = 1
						}
						if got != wantGot {
							viol("c16-mount-point-not-effective", "candidate in mount %q dropped with a will; the default-mount resident received it %d time(s), expected %d", wantMount, got, wantGot)
							return
						}
					}
					MarkNontrivial(fmt.Sprintf("%+v", p))
					rep.Nontrivial++
				}
				if i%37 == 0 {
					rep.Sample(p)
				}
			})
		},
		func(i int) any { return paths[i] },
		func(rep *vk.Report) {
			rep.Rule = "paths = store {3-entry file with 2- and 3-field lines, static} x nodes {1,2} x 10 candidate credential pairs x follow-up {subscribe, publish retained, drop with will, nothing}; refused: refusal CONNACK and no session / subscription / retained / will anywhere; accepted: session listed in the entry's mount point and isolated accordingly; non-trivial = accepted paths"
			rep.Floor("accepted_paths", 10, rep.Nontrivial)
		})
}

// TestC07LateAnswers: one answer of the environment comes late while a retained message is being published (QoS 1): the
// k-th write of the broker to a client returns 1.5 s after taking effect, so whichever broker goroutine performed it is
// held at that point while a new subscriber arrives. Whatever the point, the new subscriber must end up with the message
// (as the retained replay of its subscription, or as a live copy), and a subscriber arriving after everything settled gets
// exactly one retained replay with the newest payload.
func TestC07LateAnswers(t *testing.T) {
	type lp struct {
		Nodes  int       `json:"nodes"`
		Second bool      `json:"second_publish_overwrites"`
		Dev    Deviation `json:"one_late_answer"`
	}
	var paths []lp
	for _, n := range []int{1, 2} {
		for _, second := range []bool{false, true} {
			for k := 1; k <= 8; k++ {
				paths = append(paths, lp{n, second, Deviation{"client-write", k, 1500 * time.Millisecond}})
			}
			for k := 1; k <= 3; k++ {
				paths = append(paths, lp{n, second, Deviation{"log-append", k, 1500 * time.Millisecond}})
			}
		}
	}
	RunPaths(t, "C07", "C07/late-answers", "TestC07LateAnswers", len(paths), vk.Pick(5*time.Minute, 15*time.Minute),
		func(t *testing.T, i int, rep *vk.Report) {
			p := paths[i]
			RunBubble(t, fmt.Sprintf("p%d", i), func(t *testing.T) {
				w := NewWorld(t, p.Nodes)
				defer w.Close()
				viol := func(sig, format string, a ...any) {
					rep.Violate(vk.Violation{Sig: sig, Msg: fmt.Sprintf("%+v: ", p) + fmt.Sprintf(format, a...), Replay: p})
				}
				pub := w.NewClient("pub", 1, AckAll)
				pub.Connect(ConnectOpts{ClientID: "pub", KeepAlive: 600})
				late := w.NewClient("late", p.Nodes, AckAll)
				late.Connect(ConnectOpts{ClientID: "late", KeepAlive: 600})
				w.Step()
				want := "v1"
				if p.Second {
					pub.Publish("a", "v0", 1, true, 1)
					w.Step()
					want = "v2"
				}
				d := p.Dev
				w.SetDeviation(&d)
				pub.Publish("a", want, 1, true, 2)
				synctest.Wait() // no virtual time passes: the new subscriber arrives while the late answer is outstanding
				w.PumpGossip()  // (replication to the subscriber's node has happened: the property speaks of replicated state)
				late.Subscribe(5, 0, "a")
				w.Idle(5 * time.Second)
				if w.DeviationFired() {
					rep.Extra["runs_with_one_late_answer"] = asInt(rep.Extra["runs_with_one_late_answer"]) + 1
				}
				got := 0
				for _, pk := range late.Publishes() {
					if string(pk.Topic) == "a" && string(pk.Payload) == want {
						got++
					}
				}
				if pub.Has("PUBACK(2)") && got == 0 {
					viol("c07-subscriber-during-publish-got-nothing", "the retained publish a=%s was acknowledged; a client that subscribed to a while the broker was held at its late answer received neither a retained replay nor a live copy of it within 5 s (inbox %s)", want, trunc(late.InboxDigest(), 200))
					return
				}
				// afterwards: exactly one retained replay with the newest payload
				after := w.NewClient("after", p.Nodes, AckAll)
				after.Connect(ConnectOpts{ClientID: "after", KeepAlive: 600})
				after.Subscribe(6, 0, "a")
				w.Idle(6 * time.Second) // well past the one late answer, wherever it falls
				var replay []string
				for _, pk := range after.Publishes() {
					replay = append(replay, fmt.Sprintf("%s=%s retain=%v", pk.Topic, pk.Payload, pk.Header.Retain))
				}
				if pub.Has("PUBACK(2)") && (len(replay) != 1 || replay[0] != "a="+want+" retain=true") {
					viol("c07-replay-wrong:after-late-answer", "a subscriber arriving after everything settled received %v, expected exactly [a=%s retain=true]", replay, want)
					return
				}
				Observe(w, rep)
				MarkNontrivial(fmt.Sprint(p))
				rep.Nontrivial++
				if i%7 == 0 {
					rep.Sample(p)
				}
			})
		},
		func(i int) any { return paths[i] },
		func(rep *vk.Report) {
			rep.Rule = "a retained QoS 1 publish (first value, or overwriting an earlier one) on 1 and 2 nodes x exactly one late answer of the environment (the k-th broker-to-client write, k <= 8, or the k-th log append, k <= 3, returns 1.5 s after taking effect) with a new subscriber arriving at that very moment; the subscriber must get the message one way or the other, a later one exactly one retained replay"
			rep.Floor("late_answers", 10, int64(asInt(rep.Extra["runs_with_one_late_answer"])))
		})
}

// TestC07ManyRetained: a subscription that matches more retained topics than the publish writer's queue holds, made while
// the writer is held up by another session's slow connection (one late answer of the environment: a broker-to-client write
// that takes 0.3 / 1.5 / 2.6 s). Every retained message is owed to the new subscriber, however long the writer was busy.
func TestC07ManyRetained(t *testing.T) {
	type mp struct {
		Topics  int `json:"retained_topics"`
		DelayMs int `json:"other_sessions_write_takes_ms"`
	}
	var paths []mp
	for _, n := range []int{10, 26, 40} {
		for _, d := range []int{0, 300, 1500, 2600} {
			paths = append(paths, mp{n, d})
		}
	}
	RunPaths(t, "C07", "C07/many-retained-while-writer-busy", "TestC07ManyRetained", len(paths), vk.Pick(5*time.Minute, 15*time.Minute),
		func(t *testing.T, i int, rep *vk.Report) {
			p := paths[i]
			RunBubble(t, fmt.Sprintf("p%d", i), func(t *testing.T) {
				w := NewWorld(t, 1)
				defer w.Close()
				viol := func(sig, format string, a ...any) {
					rep.Violate(vk.Violation{Sig: sig, Msg: fmt.Sprintf("%+v: ", p) + fmt.Sprintf(format, a...), Replay: p})
				}
				pub := w.NewClient("pub", 1, AckAll)
				pub.Connect(ConnectOpts{ClientID: "pub", KeepAlive: 600})
				slow := w.NewClient("slow", 1, AckAll)
				slow.Connect(ConnectOpts{ClientID: "slow", KeepAlive: 600})
				slow.Subscribe(1, 0, "live/#")
				w.Step()
				for k := 0; k < p.Topics; k++ {
					pub.Publish(fmt.Sprintf("r/%d", k), fmt.Sprintf("v%d", k), 0, true, 0)
					w.Step()
				}
				late := w.NewClient("late", 1, AckAll)
				late.Connect(ConnectOpts{ClientID: "late", KeepAlive: 600})
				w.Step()
				if p.DelayMs > 0 {
					slow.SlowNextBrokerWrite(time.Duration(p.DelayMs) * time.Millisecond)
					pub.Publish("live/x", "now", 0, false, 0)
					// the log consumer polls: advance in steps of 10 ms until the live message has reached the slow session, i.e. the
					// writer has just entered the slow write
					for k := 0; k < 300 && len(slow.Publishes()) == 0; k++ {
						synctest.Wait()
						time.Sleep(10 * time.Millisecond)
					}
					synctest.Wait()
					if len(slow.Publishes()) == 0 {
						rep.HarnessError("the slow session never received the live message: the writer was not held")
						return
					}
				}
				late.Subscribe(5, 0, "r/#")
				w.Idle(10 * time.Second)
				got := map[string]int{}
				for _, pk := range late.Publishes() {
					got[string(pk.Topic)+"="+string(pk.Payload)]++
				}
				var missing []string
				for k := 0; k < p.Topics; k++ {
					key := fmt.Sprintf("r/%d=v%d", k, k)
					if got[key] == 0 {
						missing = append(missing, key)
					}
					if got[key] > 1 {
						viol("c07-replayed-twice:many", "retained message %s was replayed %d times to one new subscription", key, got[key])
						return
					}
				}
				if len(missing) > 0 {
					viol("c07-replay-missing:many", "the new subscriber of r/# received %d of the %d retained messages within 10 s (the publish writer was held by another session's write for %d ms); missing %v", p.Topics-len(missing), p.Topics, p.DelayMs, missing)
					return
				}
				Observe(w, rep)
				MarkNontrivial(fmt.Sprint(p))
				rep.Nontrivial++
				rep.Sample(p)
			})
		},
		func(i int) any { return paths[i] },
		func(rep *vk.Report) {
			rep.Rule = "10 / 26 / 40 retained topics (the writer's queue holds 25 messages) and a new subscription matching all of them, made while the publish writer is inside a write to another session that takes 0 / 0.3 / 1.5 / 2.6 s: the new subscriber receives every retained message exactly once"
			rep.Floor("paths", int64(len(paths)), rep.Nontrivial)
		})
}
