package e2

import (
	"errors"
	"fmt"
	"io"
	"net"
	"strings"
	"sync"
	"sync/atomic"
	"testing/synctest"
	"time"
	"verif/dsync"

	"encoding/binary"
	"github.com/vx-labs/mqtt-protocol/encoder"
	"github.com/vx-labs/mqtt-protocol/packet"
)

// AckPolicy tells the client reader what to answer automatically.
type AckPolicy int

const (
	AckAll  AckPolicy = iota // PUBLISH q1 -> PUBACK, q2 -> PUBREC, PUBREL -> PUBCOMP
	AckNone                  // never answer (the script answers by hand)
)

// Received is one packet read from the broker.
type Received struct {
	Seq int64
	At  time.Time
	Pkt packet.Packet
}

func (r Received) String() string { return DescribePacket(r.Pkt) }

// DescribePacket renders a packet canonically.
func DescribePacket(p packet.Packet) string {
	switch x := p.(type) {
	case *packet.Publish:
		return fmt.Sprintf("PUBLISH(topic=%s payload=%s qos=%d retain=%v id=%d)", x.Topic, x.Payload, x.Header.Qos, x.Header.Retain, x.MessageId)
	case *packet.ConnAck:
		return fmt.Sprintf("CONNACK(%d)", x.ReturnCode)
	case *packet.PubAck:
		return fmt.Sprintf("PUBACK(%d)", x.MessageId)
	case *packet.PubRec:
		return fmt.Sprintf("PUBREC(%d)", x.MessageId)
	case *packet.PubRel:
		return fmt.Sprintf("PUBREL(%d)", x.MessageId)
	case *packet.PubComp:
		return fmt.Sprintf("PUBCOMP(%d)", x.MessageId)
	case *packet.SubAck:
		return fmt.Sprintf("SUBACK(%d)", x.MessageId)
	case *packet.UnsubAck:
		return fmt.Sprintf("UNSUBACK(%d)", x.MessageId)
	case *packet.PingResp:
		return "PINGRESP"
	}
	return packet.TypeString(p)
}

// Client is a harness MQTT client on one end of a net.Pipe.
type Client struct {
	Name   string
	w      *World
	Node   *Node
	conn   net.Conn
	enc    *encoder.Encoder
	Policy AckPolicy

	mu        sync.Mutex
	Inbox     []Received
	Closed    bool // reader saw EOF / error: the broker closed its end
	ClosedAt  time.Time
	readErr   error
	dropped   bool // the harness closed the client end
	SessionID string
	writeMu   dsync.Mutex // channel-based: a goroutine waiting for it is durably blocked (the holder may be kept waiting by the broker for virtual seconds)
	paused    atomic.Bool
	resume    chan struct{}
	srv       *faultyConn
}

// faultyConn is the broker's end of the connection; it can be made to fail writes (a send that
// errors, e.g. a write deadline on a congested link) while reads keep working.
type faultyConn struct {
	net.Conn
	w          *World
	failWrites atomic.Bool
	slowNext   atomic.Int64 // the next write delivers its bytes, then returns this much (virtual ns) later
}

func (f *faultyConn) Write(b []byte) (int, error) {
	if f.failWrites.Load() {
		return 0, errors.New("injected: write to client failed")
	}
	n, err := f.Conn.Write(b)
	if d := f.slowNext.Swap(0); d > 0 {
		time.Sleep(time.Duration(d))
	}
	if f.w != nil {
		f.w.deviationPoint("client-write")
	}
	return n, err
}

// SlowNextBrokerWrite makes the broker's next write to this client return d after its bytes were delivered.
func (c *Client) SlowNextBrokerWrite(d time.Duration) { c.srv.slowNext.Store(int64(d)) }

// FailBrokerWrites makes every write of the broker to this client fail (on) or work again (off).
func (c *Client) FailBrokerWrites(on bool) { c.srv.failWrites.Store(on) }

// Pause makes the client stop reading from its connection (a slow consumer: the transport's
// back-pressure then blocks the broker's writes to it); Resume lets it read again.
func (c *Client) Pause() { c.paused.Store(true) }
func (c *Client) Resume() {
	if c.paused.CompareAndSwap(true, false) {
		select {
		case c.resume <- struct{}{}:
		default:
		}
	}
}

// NewClient opens a connection to node (no CONNECT sent yet).
func (w *World) NewClient(name string, node int, policy AckPolicy) *Client {
	cEnd, rawEnd := memPipe()
	sEnd := &faultyConn{Conn: rawEnd, w: w}
	c := &Client{srv: sEnd, Name: name, w: w, Node: w.Node(node), conn: cEnd, enc: encoder.New(), Policy: policy, resume: make(chan struct{}, 1)}
	w.Clients = append(w.Clients, c)
	c.Node.accept(sEnd)
	go c.readLoop()
	return c
}

func (c *Client) readLoop() {
	for {
		if c.paused.Load() {
			<-c.resume
		}
		p, err := readPacket(c.conn)
		if err != nil {
			c.mu.Lock()
			c.Closed = true
			c.ClosedAt = time.Now()
			c.readErr = err
			c.mu.Unlock()
			return
		}
		if p == nil {
			continue
		}
		c.mu.Lock()
		c.Inbox = append(c.Inbox, Received{Seq: c.w.Seq(), At: time.Now(), Pkt: p})
		policy := c.Policy
		c.mu.Unlock()
		if policy == AckAll {
			switch x := p.(type) {
			case *packet.Publish:
				if x.Header.Qos == 1 {
					go c.Send(&packet.PubAck{Header: &packet.Header{}, MessageId: x.MessageId})
				} else if x.Header.Qos == 2 {
					go c.Send(&packet.PubRec{Header: &packet.Header{}, MessageId: x.MessageId})
				}
			case *packet.PubRel:
				go c.Send(&packet.PubComp{Header: &packet.Header{}, MessageId: x.MessageId})
			case *packet.PubRec:
				go c.Send(&packet.PubRel{Header: &packet.Header{}, MessageId: x.MessageId})
			}
		}
	}
}

// Send writes one packet; a broker that no longer reads makes the write time out (virtual 2 s).
func (c *Client) Send(p packet.Packet) error {
	c.writeMu.Lock()
	defer c.writeMu.Unlock()
	c.conn.SetWriteDeadline(time.Now().Add(2 * time.Second))
	return c.enc.Encode(c.conn, p)
}

// SendRaw writes bytes.
func (c *Client) SendRaw(b []byte) error {
	c.writeMu.Lock()
	defer c.writeMu.Unlock()
	c.conn.SetWriteDeadline(time.Now().Add(2 * time.Second))
	_, err := c.conn.Write(b)
	return err
}

// Drop closes the client end (connection loss).
func (c *Client) Drop() {
	c.mu.Lock()
	c.dropped = true
	c.mu.Unlock()
	c.conn.Close()
}

// BrokerClosed reports whether the broker closed the connection (EOF seen while the harness had not dropped it).
func (c *Client) BrokerClosed() bool {
	c.mu.Lock()
	defer c.mu.Unlock()
	return c.Closed && !c.dropped && (errors.Is(c.readErr, io.EOF) || c.readErr != nil)
}

// Connect sends CONNECT and waits for the answer; returns the CONNACK code (-1: none).
type ConnectOpts struct {
	ClientID   string
	KeepAlive  int32
	User       string
	Password   string
	WillTopic  string
	WillMsg    string
	WillQos    int32
	WillRetain bool
	Clean      bool
	// UserPresent sends the user name flag even when User is empty (present-but-empty differs from absent)
	UserPresent bool
}

func (c *Client) Connect(o ConnectOpts) int32 {
	p := &packet.Connect{Header: &packet.Header{}, ClientId: []byte(o.ClientID), KeepaliveTimer: o.KeepAlive, Clean: true}
	if o.User != "" || o.UserPresent {
		p.Username = append([]byte{}, o.User...) // non-nil even when empty
	}
	if o.Password != "" {
		p.Password = []byte(o.Password)
	}
	if o.WillTopic != "" {
		p.WillTopic = []byte(o.WillTopic)
		p.WillPayload = []byte(o.WillMsg)
		p.WillQos = o.WillQos
		p.WillRetain = o.WillRetain
	}
	before := len(c.snapshot())
	if err := c.SendRaw(EncodeConnect(p)); err != nil {
		return -1
	}
	synctest.Wait()
	in := c.snapshot()
	for _, r := range in[before:] {
		if ca, ok := r.Pkt.(*packet.ConnAck); ok {
			if ca.ReturnCode == 0 {
				c.w.mu.Lock()
				c.SessionID = c.w.lastSessionID
				c.w.mu.Unlock()
			}
			return ca.ReturnCode
		}
	}
	return -1
}

func (c *Client) snapshot() []Received {
	c.mu.Lock()
	defer c.mu.Unlock()
	return append([]Received{}, c.Inbox...)
}

// Received returns a copy of the inbox.
func (c *Client) Received() []Received { return c.snapshot() }

// Publishes returns the PUBLISH packets received.
func (c *Client) Publishes() []*packet.Publish {
	var out []*packet.Publish
	for _, r := range c.snapshot() {
		if p, ok := r.Pkt.(*packet.Publish); ok {
			out = append(out, p)
		}
	}
	return out
}

func (c *Client) InboxDigest() string {
	var b strings.Builder
	for _, r := range c.snapshot() {
		b.WriteString(r.String())
		b.WriteString(",")
	}
	c.mu.Lock()
	if c.Closed {
		b.WriteString("closed")
	}
	c.mu.Unlock()
	return b.String()
}

var nextMID int32 = 100

func (c *Client) Subscribe(mid int32, qos int32, filters ...string) error {
	p := &packet.Subscribe{Header: &packet.Header{Qos: 1}, MessageId: mid}
	for _, f := range filters {
		p.Topic = append(p.Topic, []byte(f))
		p.Qos = append(p.Qos, qos)
	}
	return c.Send(p)
}
func (c *Client) Unsubscribe(mid int32, filters ...string) error {
	p := &packet.Unsubscribe{Header: &packet.Header{Qos: 1}, MessageId: mid}
	for _, f := range filters {
		p.Topic = append(p.Topic, []byte(f))
	}
	return c.Send(p)
}
func (c *Client) Publish(topic, payload string, qos int32, retain bool, mid int32) error {
	return c.Send(&packet.Publish{Header: &packet.Header{Qos: qos, Retain: retain}, Topic: []byte(topic), Payload: []byte(payload), MessageId: mid})
}
func (c *Client) Ping() error       { return c.Send(&packet.PingReq{Header: &packet.Header{}}) }
func (c *Client) Disconnect() error { return c.Send(&packet.Disconnect{Header: &packet.Header{}}) }

// Has reports whether the inbox holds a packet whose description equals s.
func (c *Client) Has(s string) bool {
	for _, r := range c.snapshot() {
		if r.String() == s {
			return true
		}
	}
	return false
}

// Count counts inbox packets whose description has the given prefix.
func (c *Client) Count(prefix string) int {
	n := 0
	for _, r := range c.snapshot() {
		if strings.HasPrefix(r.String(), prefix) {
			n++
		}
	}
	return n
}

// readPacket is the harness-side decoder: the codec library's decoder has no UNSUBACK case, so the
// client reads the fixed header itself and unmarshals the body per type.
func readPacket(r io.Reader) (packet.Packet, error) {
	var b [1]byte
	if _, err := io.ReadFull(r, b[:]); err != nil {
		return nil, err
	}
	first := b[0]
	remlen, mult := 0, 1
	for i := 0; ; i++ {
		if _, err := io.ReadFull(r, b[:]); err != nil {
			return nil, err
		}
		remlen += int(b[0]&0x7f) * mult
		mult *= 128
		if b[0]&0x80 == 0 {
			break
		}
		if i >= 3 {
			return nil, errors.New("harness: malformed remaining length from broker")
		}
	}
	body := make([]byte, remlen)
	if _, err := io.ReadFull(r, body); err != nil {
		return nil, err
	}
	h := &packet.Header{Retain: first&1 == 1, Qos: int32(first >> 1 & 3), Dup: first>>3&1 == 1}
	var p interface {
		packet.Packet
		UnmarshalMQTT([]byte) (int, error)
	}
	switch first >> 4 {
	case packet.CONNACK:
		p = &packet.ConnAck{Header: h}
	case packet.PUBLISH:
		p = &packet.Publish{Header: h}
	case packet.PUBACK:
		p = &packet.PubAck{Header: h}
	case packet.PUBREC:
		p = &packet.PubRec{Header: h}
	case packet.PUBREL:
		p = &packet.PubRel{Header: h}
	case packet.PUBCOMP:
		p = &packet.PubComp{Header: h}
	case packet.SUBACK:
		p = &packet.SubAck{Header: h}
	case packet.PINGRESP:
		p = &packet.PingResp{Header: h}
	case packet.UNSUBACK:
		u := &packet.UnsubAck{Header: h}
		if len(body) >= 2 {
			u.MessageId = int32(binary.BigEndian.Uint16(body))
		}
		return u, nil
	default:
		return nil, fmt.Errorf("harness: unexpected packet type %d from broker", first>>4)
	}
	if _, err := p.UnmarshalMQTT(body); err != nil {
		return nil, err
	}
	return p, nil
}

// EncodeConnect builds CONNECT bytes (MQTT 3.1.1). The codec library's CONNECT encoder clobbers the
// will / clean-session flags, so the harness encodes this packet itself.
func EncodeConnect(p *packet.Connect) []byte {
	lp := func(b []byte) []byte {
		return append([]byte{byte(len(b) >> 8), byte(len(b))}, b...)
	}
	var flags byte
	if p.Clean {
		flags |= 0x02
	}
	body := append(lp([]byte("MQTT")), 4)
	var tail []byte
	tail = append(tail, lp(p.ClientId)...)
	if len(p.WillTopic) > 0 {
		flags |= 0x04 | byte(p.WillQos&3)<<3
		if p.WillRetain {
			flags |= 0x20
		}
		tail = append(tail, lp(p.WillTopic)...)
		tail = append(tail, lp(p.WillPayload)...)
	}
	if p.Username != nil {
		flags |= 0x80
		tail = append(tail, lp(p.Username)...)
	}
	if len(p.Password) > 0 {
		flags |= 0x40
		tail = append(tail, lp(p.Password)...)
	}
	body = append(body, flags, byte(p.KeepaliveTimer>>8), byte(p.KeepaliveTimer))
	body = append(body, tail...)
	out := []byte{0x10}
	n := len(body)
	for {
		d := byte(n % 128)
		n /= 128
		if n > 0 {
			d |= 0x80
		}
		out = append(out, d)
		if n == 0 {
			break
		}
	}
	return append(out, body...)
}
