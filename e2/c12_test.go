package e2

import (
	"crypto/sha256"
	"fmt"
	"os"
	"path/filepath"
	"strings"
	"testing"
	"testing/synctest"
	"time"

	"github.com/vx-labs/wasp/v4/wasp/auth"

	"verif/internal/vk"
)

// C12: one live session per client identifier.

type c12path struct {
	Placement int      `json:"new_session_node"`
	Chain     bool     `json:"third_connection"`
	Skew      int      `json:"new_session_node_clock_offset_s"`
	Events    []string `json:"events"`
}

var c12events = []string{"c1-ping", "c1-sub", "c1-disconnect", "c1-drop", "c2-sub", "c2-disconnect", "c2-drop", "deliver-0", "deliver-1", "deliver-2", "deliver-all"}

func c12paths() []c12path {
	var out []c12path
	maxLen := vk.Pick(4, 5)
	var rec func(cur []string, used map[string]bool)
	var seqs [][]string
	rec = func(cur []string, used map[string]bool) {
		seqs = append(seqs, append([]string{}, cur...))
		if len(cur) == maxLen {
			return
		}
		gone := used["c1-disconnect"] || used["c1-drop"]
		gone2 := used["c2-disconnect"] || used["c2-drop"]
		for _, e := range c12events {
			if used[e] {
				continue
			}
			if gone && strings.HasPrefix(e, "c1-") {
				continue
			}
			if gone2 && strings.HasPrefix(e, "c2-") {
				continue
			}
			used[e] = true
			rec(append(cur, e), used)
			delete(used, e)
		}
	}
	rec(nil, map[string]bool{})
	for _, pl := range []int{1, 2} {
		for _, s := range seqs {
			out = append(out, c12path{pl, false, 0, s})
			if vk.Thorough() && len(s) <= 3 {
				out = append(out, c12path{pl, true, 0, s})
			}
			// the accepting node's clock behind / ahead of the first session's node
			if pl == 2 && (len(s) <= 3 || vk.Thorough()) {
				out = append(out, c12path{pl, false, -30, s}, c12path{pl, false, 30, s})
				if len(s) <= 2 {
					out = append(out, c12path{pl, false, -45, s}, c12path{pl, false, 45, s}, c12path{pl, false, -3600, s})
				}
			}
		}
	}
	return out
}

func TestC12Takeover(t *testing.T) {
	paths := c12paths()
	RunPaths(t, "C12", "C12/client-id-takeover", "TestC12Takeover", len(paths), vk.Pick(8*time.Minute, 40*time.Minute),
		func(t *testing.T, i int, rep *vk.Report) {
			p := paths[i]
			RunBubble(t, fmt.Sprintf("p%d", i), func(t *testing.T) {
				w := NewWorld(t, 2)
				defer w.Close()
				viol := func(sig, format string, a ...any) {
					rep.Violate(vk.Violation{Sig: sig, Msg: fmt.Sprintf("new session on node %d, chain=%v, events %v: ", p.Placement, p.Chain, p.Events) + fmt.Sprintf(format, a...), Replay: p})
				}
				c1 := w.NewClient("c1", 1, AckAll)
				if c1.Connect(ConnectOpts{ClientID: "X", KeepAlive: 600, WillTopic: "will/x", WillMsg: "c1-gone"}) != 0 {
					rep.HarnessError("c1 connect")
					return
				}
				c1.Subscribe(1, 0, "old/#")
				w.Step() // proviso: the earlier session's record is gossiped everywhere
				s1 := c1.SessionID
				w.GossipAuto = false
				skew := time.Duration(p.Skew) * time.Second
				onNode2 := func(f func()) { // events addressed to the new session's node run under its clock
					w.SetClockOffset(skew)
					f()
					w.SetClockOffset(0)
				}
				var c2 *Client
				onNode2(func() {
					c2 = w.NewClient("c2", p.Placement, AckAll)
					if rc := c2.Connect(ConnectOpts{ClientID: "X", KeepAlive: 600}); rc != 0 {
						viol("c12-new-session-refused", "the second connection with the same client identifier got CONNACK %d", rc)
						return
					}
					w.Step()
				})
				if c2.SessionID == "" {
					return
				}
				s2 := c2.SessionID
				c1Gone := false
				c2Gone := false
				pings := 0
				had := map[string]bool{} // node:entry of c2 that some node listed at some point
				deliveredS2 := p.Placement == 1
				// with offset clocks "newest record" is only decidable once the removal of the old record has
				// arrived as well (the new record may carry the smaller timestamp): the intermediate oracle then
				// waits for both messages; clock offsets are outside C12's quantifier, the final oracles still apply
				gotNew, gotOldRemoval := false, false
				deliver := func(k int) bool {
					w.DrainGossip()
					if k >= len(w.Pending) {
						return false
					}
					m := w.Pending[k]
					ks, _ := decodeKeys(m.Payload)
					for _, n := range w.Nodes {
						if n.ID != m.From {
							w.Deliver(k, n.ID)
							if n.ID == 1 {
								_ = ks
								for id, live := range decodeSessions(m.Payload) {
									if id == s2 && live {
										gotNew = true
									}
									if id == s1 && !live {
										gotOldRemoval = true
									}
								}
								if gotNew && (p.Skew == 0 || gotOldRemoval) {
									deliveredS2 = true
								}
							}
						}
					}
					w.Pending = append(w.Pending[:k], w.Pending[k+1:]...)
					return true
				}
				checkO4 := func(stage string) bool {
					for _, n := range w.Nodes {
						v := n.View()
						cur := map[string]bool{}
						for _, s := range v.Sessions {
							if strings.HasPrefix(s, s2+" ") {
								cur[fmt.Sprintf("%d:session", n.ID)] = true
							}
						}
						for _, s := range v.Subscriptions {
							if strings.HasPrefix(s, s2+" ") {
								cur[fmt.Sprintf("%d:sub:%s", n.ID, strings.Fields(s)[1])] = true
							}
						}
						for k := range had {
							if c2Gone {
								break // the new session ended on its own: its state is expected to go
							}
							if strings.HasPrefix(k, fmt.Sprintf("%d:", n.ID)) && !cur[k] {
								viol("c12-new-session-state-removed", "after %s node %d no longer lists %s of the new session %s", stage, n.ID, k, s2)
								return false
							}
						}
						for k := range cur {
							had[k] = true
						}
					}
					if !c2Gone && (c2.BrokerClosed() || w.Node(p.Placement).Local.Get(s2) == nil) {
						viol("c12-new-session-ended", "after %s the new session is no longer served", stage)
						return false
					}
					return true
				}
				if !checkO4("connect") {
					return
				}
				mid := int32(10)
				for k, ev := range p.Events {
					mid++
					switch ev {
					case "c1-ping":
						if c1Gone {
							return
						}
						// what c1's node has been told by now, read from its listing (not from the lookup under test):
						// the old record is gone, or (clocks in step) another live record carries the same client id
						oldListed, newerListed := false, false
						for _, md := range w.Node(1).DState.SessionMetadatas().All() {
							if md.SessionID == s1 {
								oldListed = true
							} else if md.ClientID == "X" {
								newerListed = true
							}
						}
						deliveredS2 = !oldListed || (p.Skew == 0 && newerListed)
						c1.Ping()
						pings++
						w.Step()
						answered := c1.Count("PINGRESP") == pings
						if deliveredS2 {
							if answered {
								viol("c12-displaced-session-served", "event %d: the earlier session's PINGREQ was answered although its node already holds the new session's record", k)
								return
							}
							if w.Node(1).Local.Get(s1) != nil {
								viol("c12-displaced-session-not-torn-down", "event %d: after its keep-alive exchange the earlier session is still registered on node 1", k)
								return
							}
							c1Gone = true
						} else if !answered {
							pings-- // legal either way before node 1 learns of the new session
							if w.Node(1).Local.Get(s1) == nil {
								c1Gone = true
							}
						}
					case "c1-sub":
						if c1Gone {
							return
						}
						c1.Subscribe(mid, 0, "old2/#")
						w.Step()
					case "c1-disconnect":
						if c1Gone {
							return
						}
						c1.Disconnect()
						w.Step()
						c1Gone = true
					case "c1-drop":
						if c1Gone {
							return
						}
						c1.Drop()
						w.Step()
						c1Gone = true
					case "c2-sub":
						if c2Gone {
							return
						}
						onNode2(func() {
							c2.Subscribe(mid, 0, "new/#")
							w.Step()
						})
						if c2.Count("SUBACK") == 0 {
							viol("c12-new-session-not-served", "the new session's SUBSCRIBE got no SUBACK")
							return
						}
					case "c2-disconnect", "c2-drop":
						if c2Gone {
							return
						}
						onNode2(func() {
							if ev == "c2-disconnect" {
								c2.Disconnect()
							} else {
								c2.Drop()
							}
							w.Step()
						})
						c2Gone = true
					case "deliver-0", "deliver-1", "deliver-2":
						var idx int
						fmt.Sscanf(ev, "deliver-%d", &idx)
						if !deliver(idx) {
							return // infeasible: fewer messages pending
						}
						w.Step()
					case "deliver-all":
						w.DrainGossip()
						for len(w.Pending) > 0 {
							deliver(0)
						}
						w.Step()
					}
					Observe(w, rep)
					if !checkO4(fmt.Sprintf("event %d (%s)", k, ev)) {
						return
					}
				}
				var c3 *Client
				last, lastNode := s2, p.Placement
				if p.Chain {
					// proviso again: everything delivered before the third connection
					for r := 0; r < 3; r++ {
						w.DeliverAll(false)
						w.Step()
					}
					c3 = w.NewClient("c3", 3-p.Placement, AckAll)
					if rc := c3.Connect(ConnectOpts{ClientID: "X", KeepAlive: 600}); rc != 0 {
						viol("c12-new-session-refused", "the third connection got CONNACK %d", rc)
						return
					}
					last, lastNode = c3.SessionID, 3-p.Placement
				}
				// finalize
				for r := 0; r < 4; r++ {
					w.DeliverAll(false)
					w.Step()
				}
				w.Idle(2 * time.Second)
				w.DeliverAll(false)
				Observe(w, rep)
				for _, n := range w.Nodes {
					if c2Gone && !p.Chain {
						break // the newest session left on its own: nothing has to resolve
					}
					md, err := n.DState.SessionMetadatas().ByClientIDInMountPoint("_default", "X")
					if err != nil {
						viol("c12-client-id-unresolved", "after all gossip was delivered node %d resolves client id X to nothing (%v); view %s", n.ID, err, n.View())
						return
					}
					if md.SessionID != last {
						viol("c12-client-id-resolves-to-old-session", "after all gossip was delivered node %d resolves client id X to %s, the newest session is %s; view %s", n.ID, md.SessionID, last, n.View())
						return
					}
				}
				if !(c2Gone && !p.Chain) && w.Node(lastNode).Local.Get(last) == nil {
					viol("c12-new-session-ended", "the newest session is not registered on its node at the end")
					return
				}
				// the earlier session stops being served no later than its next keep-alive exchange
				if !c1Gone {
					c1.Ping()
					w.Step()
					if c1.Count("PINGRESP") > pings {
						viol("c12-displaced-session-served", "after all gossip was delivered the earlier session's PINGREQ was still answered")
						return
					}
				}
				MarkNontrivial(fmt.Sprintf("%v", p))
				rep.Nontrivial++
				if i%997 == 0 {
					rep.Sample(p)
				}
			})
		},
		func(i int) any { return paths[i] },
		func(rep *vk.Report) {
			rep.Rule = "paths = second connection with the same client id on node 1|2 after the first session's record was gossiped, then every ordered selection (each event once) of up to 4 (quick) / 5 (thorough) events from " + strings.Join(c12events, ",") + "; thorough adds a third connection on the other node; non-trivial = paths that reached the end-of-path resolution check"
			rep.Floor("completed_paths", 100, rep.Nontrivial)
		})
}

// TestC12Chain3: three nodes; the third connection is accepted by a node that has learned of both
// earlier sessions but has not yet received the removal of the first one.
func TestC12Chain3(t *testing.T) {
	type cp struct {
		HoldRemoval bool `json:"removal_of_first_record_withheld_from_node_3"`
		LateBefore  bool `json:"withheld_removal_delivered_just_before_the_third_connection"`
		Third       int  `json:"third_connection_on_node"`
		OldPings    bool `json:"first_session_pings_before_third_connection"`
	}
	var paths []cp
	for _, h := range []bool{true, false} {
		for _, n := range []int{1, 2, 3} {
			for _, op := range []bool{false, true} {
				paths = append(paths, cp{h, false, n, op})
				if h {
					paths = append(paths, cp{h, true, n, op}) // the creation of s2 is merged first, the removal of s1 afterwards
				}
			}
		}
	}
	RunPaths(t, "C12", "C12/chain-of-three", "TestC12Chain3", len(paths), vk.Pick(4*time.Minute, 10*time.Minute),
		func(t *testing.T, i int, rep *vk.Report) {
			p := paths[i]
			RunBubble(t, fmt.Sprintf("p%d", i), func(t *testing.T) {
				w := NewWorld(t, 3)
				defer w.Close()
				viol := func(sig, format string, a ...any) {
					rep.Violate(vk.Violation{Sig: sig, Msg: fmt.Sprintf("%+v: ", p) + fmt.Sprintf(format, a...), Replay: p})
				}
				c1 := w.NewClient("c1", 1, AckAll)
				c1.Connect(ConnectOpts{ClientID: "X", KeepAlive: 600})
				w.Step()
				s1 := c1.SessionID
				w.GossipAuto = false
				c2 := w.NewClient("c2", 2, AckAll)
				if rc := c2.Connect(ConnectOpts{ClientID: "X", KeepAlive: 600}); rc != 0 {
					viol("c12-new-session-refused", "second connection: CONNACK %d", rc)
					return
				}
				w.Step()
				w.DrainGossip()
				// deliver node 2's messages: everything to node 1; to node 3 everything except (optionally) the removal of s1
				var held []*GossipMsg
				for k := range w.Pending {
					m := w.Pending[k]
					isRemoval := false
					for id, live := range decodeSessions(m.Payload) {
						if id == s1 && !live {
							isRemoval = true
						}
					}
					w.Deliver(k, 1)
					if p.HoldRemoval && isRemoval {
						held = append(held, m)
						continue
					}
					w.Deliver(k, 3)
				}
				w.Pending = held
				w.Step()
				if p.OldPings {
					c1.Ping()
					w.Step()
				}
				if p.LateBefore {
					for k := range w.Pending {
						w.Deliver(k, 3)
					}
					w.Pending = nil
					w.Step()
				}
				c3 := w.NewClient("c3", p.Third, AckAll)
				if rc := c3.Connect(ConnectOpts{ClientID: "X", KeepAlive: 600}); rc != 0 {
					viol("c12-new-session-refused", "the third connection with the same client identifier (node %d) got CONNACK %d", p.Third, rc)
					return
				}
				s3 := c3.SessionID
				w.Step()
				Observe(w, rep)
				for r := 0; r < 4; r++ {
					w.DeliverAll(false)
					w.Step()
				}
				c3.Ping()
				w.Step()
				if c3.Count("PINGRESP") != 1 || w.Node(p.Third).Local.Get(s3) == nil {
					viol("c12-new-session-not-served", "the third session is not served after all gossip was delivered")
					return
				}
				for _, n := range w.Nodes {
					md, err := n.DState.SessionMetadatas().ByClientIDInMountPoint("_default", "X")
					if err != nil || md.SessionID != s3 {
						viol("c12-client-id-resolves-to-old-session", "node %d resolves X to %q (%v), the newest session is %s; view %s", n.ID, md.SessionID, err, s3, n.View())
						return
					}
				}
				for _, old := range []*Client{c1, c2} {
					before := old.Count("PINGRESP")
					old.Ping()
					w.Step()
					if old.Count("PINGRESP") > before {
						viol("c12-displaced-session-served", "%s's PINGREQ was answered after all gossip was delivered", old.Name)
						return
					}
				}
				MarkNontrivial(fmt.Sprintf("%+v", p))
				rep.Nontrivial++
				rep.Sample(p)
			})
		},
		func(i int) any { return paths[i] },
		func(rep *vk.Report) {
			rep.Rule = "three nodes, three connections with one client identifier (nodes 1, 2, then 1|2|3); the removal of the first record is or is not withheld from node 3 when the third connection arrives; the third CONNECT must be accepted, every node must resolve the identifier to it after all gossip, and both earlier sessions must stop being served"
			rep.Floor("paths", 6, rep.Nontrivial)
		})
}

// TestC12Seams: the previous connection of the client goes away exactly between two steps of the take-over (after the
// manager looked its record up, after it removed that record, after it created the new one). Whatever the interleaving,
// the new connection is accepted and the identifier resolves to it alone.
func TestC12Seams(t *testing.T) {
	type sp struct {
		Placement int    `json:"new_session_node"`
		Seam      string `json:"between"`
		Action    string `json:"previous_connection"`
	}
	var paths []sp
	for _, pl := range []int{1, 2} {
		for _, seam := range []string{"lookup", "delete", "create"} {
			for _, a := range []string{"disconnects", "drops", "pings", "nothing"} {
				paths = append(paths, sp{pl, seam, a})
			}
		}
	}
	RunPaths(t, "C12", "C12/takeover-seams", "TestC12Seams", len(paths), vk.Pick(4*time.Minute, 10*time.Minute),
		func(t *testing.T, i int, rep *vk.Report) {
			p := paths[i]
			RunBubble(t, fmt.Sprintf("p%d", i), func(t *testing.T) {
				w := NewWorld(t, 2)
				defer w.Close()
				viol := func(sig, format string, a ...any) {
					rep.Violate(vk.Violation{Sig: sig, Msg: fmt.Sprintf("%+v: ", p) + fmt.Sprintf(format, a...), Replay: p})
				}
				c1 := w.NewClient("c1", 1, AckAll)
				if c1.Connect(ConnectOpts{ClientID: "X", KeepAlive: 600, WillTopic: "will/x", WillMsg: "c1-gone"}) != 0 {
					rep.HarnessError("c1 connect")
					return
				}
				c1.Subscribe(1, 0, "old/#")
				w.Step()
				s1 := c1.SessionID
				fired := false
				w.Seam = func(n *Node, op, arg string) {
					if fired || int(n.ID) != p.Placement || op != p.Seam {
						return
					}
					if op == "lookup" && arg != "X" || op == "delete" && arg != s1 {
						return
					}
					fired = true
					switch p.Action {
					case "disconnects":
						c1.Disconnect()
					case "drops":
						c1.Drop()
					case "pings":
						c1.Ping()
					}
					time.Sleep(200 * time.Millisecond) // the manager's goroutine is held while the other connection is served
				}
				c2 := w.NewClient("c2", p.Placement, AckAll)
				rc := c2.Connect(ConnectOpts{ClientID: "X", KeepAlive: 600})
				w.Step()
				w.Seam = nil
				if rc != 0 && c2.Count("CONNACK(0)") == 1 {
					rc = 0 // the CONNACK came after the pause
					w.mu.Lock()
					c2.SessionID = w.lastSessionID
					w.mu.Unlock()
				}
				if !fired {
					rep.HarnessError("the seam %q was never reached on node %d", p.Seam, p.Placement)
					return
				}
				if rc != 0 {
					viol("c12-new-session-refused:seam", "the previous connection %s right after the manager's %s step: the new connection got CONNACK code %d (-1 = none, connection closed=%v)", p.Action, p.Seam, rc, c2.BrokerClosed())
					return
				}
				s2 := c2.SessionID
				w.Step()
				w.Idle(2 * time.Second)
				// the new session is served
				c2.Ping()
				w.Step()
				if c2.BrokerClosed() || c2.Count("PINGRESP") != 1 {
					viol("c12-new-session-not-served:seam", "after the take-over the new session's PINGREQ was not answered (closed=%v)", c2.BrokerClosed())
					return
				}
				// the old one is not (once its node knows of the new one; all gossip has been delivered by now)
				if p.Action == "pings" || p.Action == "nothing" {
					before := c1.Count("PINGRESP")
					c1.Ping()
					w.Step()
					if c1.Count("PINGRESP") != before {
						viol("c12-displaced-session-still-served:seam", "the displaced session's PINGREQ was answered after every node learned of the new session")
						return
					}
				}
				w.Idle(2 * time.Second)
				for _, n := range w.Nodes {
					live := []string{}
					for _, s := range n.DState.SessionMetadatas().All() {
						if s.ClientID == "X" {
							live = append(live, s.SessionID)
						}
					}
					if len(live) != 1 || live[0] != s2 {
						viol("c12-identifier-does-not-resolve-to-new-session:seam", "node %d lists sessions %v for the client identifier; the new session is %s (the old one was %s)", n.ID, live, s2, s1)
						return
					}
					for _, s := range n.DState.Subscriptions().All() {
						if s.SessionID == s1 {
							viol("c12-old-subscription-left:seam", "node %d still lists the displaced session's subscription %s", n.ID, s.Pattern)
							return
						}
					}
				}
				Observe(w, rep)
				MarkNontrivial(fmt.Sprint(p))
				rep.Nontrivial++
				rep.Sample(p)
			})
		},
		func(i int) any { return paths[i] },
		func(rep *vk.Report) {
			rep.Rule = "paths = new connection on node {1,2} x seam {after the manager looked the old record up, after it removed it, after it created the new one} x what the previous connection does at that very point {DISCONNECT, drop, PINGREQ, nothing}; the manager's goroutine is held at the seam while the other connection is served; the new connection must be accepted and served, the identifier must resolve to it alone on both nodes, the old session's subscriptions must be gone"
			rep.Floor("paths", 20, rep.Nontrivial)
		})
}

// TestC12RealIdentifiers: the takeover with the session identifiers the broker's own authentication handlers hand out
// (the other phases use a handler of the harness that numbers sessions). Two, then three connections with one client
// identifier reach the broker in the same instant of virtual time (no time passes between them: same nanosecond, let
// alone millisecond), 1 ms or 1 s apart; on one node or two. Afterwards exactly one session is live for the client
// identifier: every earlier connection is ended at its next keep-alive exchange, the last one is answered.
func TestC12RealIdentifiers(t *testing.T) {
	type ip struct {
		Handler   string `json:"authentication_handler"`
		Nodes     int    `json:"nodes"`
		GapUs     int    `json:"microseconds_between_connections"`
		Connects  int    `json:"connections"`
		SecondOn2 bool   `json:"second_connection_on_node_2"`
	}
	var paths []ip
	for _, h := range []string{"none", "static", "file"} {
		for _, gap := range []int{0, 1000, 1000000} {
			for _, n := range []int{2, 3} {
				paths = append(paths, ip{h, 1, gap, n, false})
			}
			paths = append(paths, ip{h, 2, gap, 2, true})
		}
	}
	RunPaths(t, "C12", "C12/real-session-identifiers", "TestC12RealIdentifiers", len(paths), vk.Pick(4*time.Minute, 10*time.Minute),
		func(t *testing.T, i int, rep *vk.Report) {
			p := paths[i]
			var h auth.AuthenticationHandler
			var err error
			user, pass := "", ""
			switch p.Handler {
			case "none":
				h = auth.NoopHandler()
			case "static":
				h, err = auth.StaticHandler("alice", "pw-alice")
				user, pass = "alice", "pw-alice"
			case "file":
				file := filepath.Join(os.Getenv("VERIF_SCRATCH"), fmt.Sprintf("c12-creds-%d-%d.csv", os.Getpid(), i))
				os.WriteFile(file, []byte(fmt.Sprintf("alice:%x:tenant-a\n", sha256.Sum256([]byte("pw-alice")))), 0o600)
				defer os.Remove(file)
				h, err = auth.FileHandler(file)
				user, pass = "alice", "pw-alice"
			}
			if err != nil {
				rep.HarnessError("handler: %v", err)
				return
			}
			AuthOverride = h
			defer func() { AuthOverride = nil }()
			RunBubble(t, fmt.Sprintf("p%d", i), func(t *testing.T) {
				w := NewWorld(t, p.Nodes)
				defer w.Close()
				viol := func(sig, format string, a ...any) {
					rep.Violate(vk.Violation{Sig: sig, Msg: fmt.Sprintf("%+v: ", p) + fmt.Sprintf(format, a...), Replay: p})
				}
				var cs []*Client
				for k := 0; k < p.Connects; k++ {
					node := 1
					if p.SecondOn2 && k == 1 {
						node = 2
					}
					c := w.NewClient(fmt.Sprintf("c%d", k+1), node, AckAll)
					if rc := c.Connect(ConnectOpts{ClientID: "X", KeepAlive: 600, User: user, Password: pass}); rc != 0 {
						viol("c12-new-session-refused", "connection %d with the same client identifier got CONNACK %d", k+1, rc)
						return
					}
					cs = append(cs, c)
					if p.GapUs > 0 {
						synctest.Wait()
						time.Sleep(time.Duration(p.GapUs) * time.Microsecond)
					}
					if p.Nodes == 2 {
						synctest.Wait()
						w.PumpGossip() // the proviso of C12: the earlier record is known where the next connection arrives
					}
				}
				w.Step()
				// the session records: distinct identifiers were handed out, one record is left
				ids := map[string]bool{}
				var listed []string
				for _, m := range w.Node(1).DState.SessionMetadatas().All() {
					if m.ClientID == "X" {
						listed = append(listed, m.SessionID)
						ids[m.SessionID] = true
					}
				}
				for _, c := range cs {
					c.Ping()
				}
				w.Step()
				w.Idle(2 * time.Second)
				for k, c := range cs {
					last := k == len(cs)-1
					answered := c.Count("PINGRESP") > 0
					if last && (c.BrokerClosed() || !answered) {
						viol("c12-newest-session-ended", "the newest connection (%d of %d) was closed or not answered at its keep-alive exchange (closed=%v)", k+1, len(cs), c.BrokerClosed())
						return
					}
					if !last && !c.BrokerClosed() {
						viol("c12-two-live-sessions", "connection %d of %d with client identifier X is still served after its keep-alive exchange (PINGRESP=%v) although a newer connection took the identifier; session records for X: %v", k+1, len(cs), answered, listed)
						return
					}
				}
				live := 0
				for _, n := range w.Nodes {
					for _, s := range n.Local.ListSessions() {
						if s.ClientID() == "X" {
							live++
						}
					}
				}
				if live != 1 {
					viol("c12-live-session-count", "%d sessions with client identifier X are registered on the nodes, expected 1", live)
					return
				}
				Observe(w, rep)
				MarkNontrivial(fmt.Sprint(p))
				rep.Nontrivial++
				rep.Sample(p)
			})
		},
		func(i int) any { return paths[i] },
		func(rep *vk.Report) {
			rep.Rule = "2-3 connections with one client identifier, authenticated by the broker's own handlers (none / static / file: they choose the session identifiers), arriving in the same instant, 1 ms or 1 s apart, on one node or across two (records gossiped in between): every connection but the last is ended at its next keep-alive exchange, the last is answered, one session is registered"
			rep.Floor("paths", int64(len(paths)), rep.Nontrivial)
		})
}
