package e2

import (
	"fmt"
	"strings"
	"testing"
	"testing/synctest"
	"time"

	"verif/internal/vk"
)

// C14: a publish is appended exactly once to the log of each node hosting a matching subscription
// known to the publishing node, delivered there exactly once, and a failed destination only
// withholds the acknowledgement.

type c14path struct {
	Nodes       int   `json:"nodes"`
	Publisher   int   `json:"publisher_node"`
	Hosts       []int `json:"per_node_subscribers"` // bit0: matching, bit1: non-matching
	Unreachable []int `json:"unreachable_nodes"`
	Pair        int   `json:"topic_filter_pair"`
	Qos         int32 `json:"qos"`
	Withhold    int   `json:"subscription_gossip_withheld_from_node"` // 0 = none
	Extra       int   `json:"second_matching_subscriber_on_node"`     // 0 = none; subscribes last, so matching subscriptions alternate between nodes
	Slow        []int `json:"slow_nodes"`                             // nodes whose log takes 2 s per append
	Roam        bool  `json:"subscription_of_a_node1_session_re-created_through_node_2_rpc"`
	StaleGone   int   `json:"matching_subscriber_left_node_but_publisher_not_told"` // 0 = none
	// Flash: on that node a client subscribes to the matching filter (QoS 0) and unsubscribes again before the node's
	// transmit queue is drained; both changes then travel in the queue's own order. 0 = none
	Flash int `json:"subscribed_and_unsubscribed_within_one_gossip_round_on_node"`
	// Dev: exactly one answer of the environment returns 1.5 s after taking effect (installed right before the publish)
	Dev *Deviation `json:"one_late_answer,omitempty"`
}

var c14pairs = [][3]string{{"a/b", "a/+", "a/c"}, {"a", "a/#", "b/#"}, {"a/b/c", "#", "+"}, {"a/b", "+/b", "a/b/c"}}

func c14paths() []c14path {
	var out []c14path
	for _, n := range []int{2, 3} {
		pubs := []int{1}
		if vk.Thorough() {
			pubs = []int{1, 2}
		}
		for _, pn := range pubs {
			total := 1
			for i := 0; i < n; i++ {
				total *= 4
			}
			for h := 0; h < total; h++ {
				hosts := make([]int, n)
				x := h
				for i := 0; i < n; i++ {
					hosts[i] = x % 4
					x /= 4
				}
				var remotes []int
				for i := 1; i <= n; i++ {
					if i != pn {
						remotes = append(remotes, i)
					}
				}
				for um := 0; um < 1<<len(remotes); um++ {
					var un []int
					for k, r := range remotes {
						if um&(1<<k) != 0 {
							un = append(un, r)
						}
					}
					npairs := vk.Pick(2, len(c14pairs))
					for pi := 0; pi < npairs; pi++ {
						for _, q := range []int32{1, 2} {
							if n == 3 && q == 2 && !vk.Thorough() {
								continue
							}
							out = append(out, c14path{n, pn, hosts, un, pi, q, 0, 0, nil, false, 0, 0, nil})
							if pi == 0 && q == 1 && len(un) == 0 {
								// a remote matching subscriber unsubscribes, but that news has not reached the publisher yet
								for _, r := range remotes {
									if hosts[r-1]&1 != 0 {
										out = append(out, c14path{n, pn, hosts, nil, pi, q, 0, 0, nil, false, r, 0, nil})
									}
								}
							}
							if q == 1 && len(un) == 0 {
								// a subscription that comes and goes within one gossip round on a node without matching subscriber
								for _, r := range remotes {
									if hosts[r-1]&1 == 0 {
										out = append(out, c14path{n, pn, hosts, nil, pi, q, 0, 0, nil, false, 0, r, nil})
									}
								}
							}
							if pi == 0 && q == 1 && len(un) > 0 && len(un) < len(remotes) {
								// the nodes that were unreachable are slow instead: everybody must still get the message
								out = append(out, c14path{n, pn, hosts, nil, pi, q, 0, 0, un, false, 0, 0, nil})
							}
							if pi == 0 && q == 1 && len(un) == 0 && n == 2 && pn == 1 && hosts[0]&1 != 0 {
								out = append(out, c14path{n, pn, hosts, nil, pi, q, 0, 0, nil, true, 0, 0, nil})
							}
							if pi == 0 && q == 1 {
								for ex := 1; ex <= n; ex++ {
									if hosts[ex-1]&1 != 0 {
										out = append(out, c14path{n, pn, hosts, un, pi, q, 0, ex, nil, false, 0, 0, nil})
									}
								}
							}
							if vk.Thorough() && pi == 0 && q == 1 {
								for _, r := range remotes {
									if hosts[r-1]&1 != 0 {
										out = append(out, c14path{n, pn, hosts, un, pi, q, r, 0, nil, false, 0, 0, nil})
									}
								}
							}
						}
					}
				}
			}
		}
	}
	// one late answer around the publish: every node hosts a matching subscriber
	for _, n := range []int{2, 3} {
		hosts := make([]int, n)
		for i := range hosts {
			hosts[i] = 1
		}
		for _, q := range []int32{1, 2} {
			for k := 1; k <= 12; k++ {
				out = append(out, c14path{Nodes: n, Publisher: 1, Hosts: hosts, Qos: q, Dev: &Deviation{"client-write", k, 1500 * time.Millisecond}})
			}
			for k := 1; k <= 4; k++ {
				out = append(out, c14path{Nodes: n, Publisher: 1, Hosts: hosts, Qos: q, Dev: &Deviation{"log-append", k, 1500 * time.Millisecond}})
				out = append(out, c14path{Nodes: n, Publisher: 1, Hosts: hosts, Qos: q, Dev: &Deviation{"rpc", k, 1500 * time.Millisecond}})
			}
		}
	}
	return out
}

func TestC14CrossNode(t *testing.T) {
	paths := c14paths()
	RunPaths(t, "C14", "C14/cross-node-delivery", "TestC14CrossNode", len(paths), vk.Pick(8*time.Minute, 30*time.Minute),
		func(t *testing.T, i int, rep *vk.Report) {
			p := paths[i]
			RunBubble(t, fmt.Sprintf("p%d", i), func(t *testing.T) {
				w := NewWorld(t, p.Nodes)
				defer w.Close()
				viol := func(sig, format string, a ...any) {
					rep.Violate(vk.Violation{Sig: sig, Msg: fmt.Sprintf("%+v: ", p) + fmt.Sprintf(format, a...), Replay: p})
				}
				pair := c14pairs[p.Pair]
				topic, match, nomatch := pair[0], pair[1], pair[2]
				type sub struct {
					c        *Client
					node     int
					matching bool
				}
				var subs []sub
				// the publisher is there first and publishes the very topic once while nobody subscribes (a "no
				// destination" result must not stick)
				pub := w.NewClient("pub", p.Publisher, AckAll)
				pub.Connect(ConnectOpts{ClientID: "pub", KeepAlive: 600})
				w.Step()
				pub.Publish(topic, "payload-0", 1, false, 6)
				w.Step()
				if p.Withhold != 0 {
					// the publisher's node never hears of node Withhold's subscriptions
					w.GossipHold = func(int) bool { return false }
				}
				for n := 1; n <= p.Nodes; n++ {
					if p.Hosts[n-1]&1 != 0 {
						c := w.NewClient(fmt.Sprintf("m%d", n), n, AckAll)
						c.Connect(ConnectOpts{ClientID: c.Name, KeepAlive: 600})
						w.Step()
						if n == p.Withhold {
							from := uint64(n)
							base := w.gossipIndex
							w.GossipHold = func(idx int) bool { return idx >= base && w.pendingFrom(idx) == from }
						}
						c.Subscribe(1, 1, match)
						w.Step()
						subs = append(subs, sub{c, n, true})
					}
					if p.Hosts[n-1]&2 != 0 {
						c := w.NewClient(fmt.Sprintf("x%d", n), n, AckAll)
						c.Connect(ConnectOpts{ClientID: c.Name, KeepAlive: 600})
						c.Subscribe(1, 1, nomatch)
						w.Step()
						subs = append(subs, sub{c, n, false})
					}
				}
				if p.Extra != 0 {
					c := w.NewClient(fmt.Sprintf("m%db", p.Extra), p.Extra, AckAll)
					c.Connect(ConnectOpts{ClientID: c.Name, KeepAlive: 600})
					c.Subscribe(1, 1, match)
					w.Step()
					subs = append(subs, sub{c, p.Extra, true})
				}
				var roamOld *Client
				if p.Roam {
					// a session connected on node 1 whose subscription is re-created through node 2's RPC API
					// (CreateSubscription): the entry then names node 2, where the session is not connected
					roamOld = w.NewClient("roamer", 1, AckAll)
					roamOld.Connect(ConnectOpts{ClientID: "roamer", KeepAlive: 600})
					roamOld.Subscribe(1, 1, match)
					w.Step()
					w.Node(2).DState.Subscriptions().CreateFrom(roamOld.SessionID, 2, []byte("_default/"+match), 1)
					w.Step()
				}
				for _, sn := range p.Slow {
					w.SlowLog(sn, 2*time.Second)
				}
				if p.StaleGone != 0 {
					// the matching subscriber on that node unsubscribes; the publisher's node is not told (gossip in flight)
					w.GossipHold = func(int) bool { return true }
					for _, sb := range subs {
						if sb.node == p.StaleGone && sb.matching {
							sb.c.Unsubscribe(9, match)
						}
					}
					w.Step()
					// every node but the publisher's learns of it
					for k := range w.Pending {
						for _, n := range w.Nodes {
							if int(n.ID) != p.Publisher {
								w.Deliver(k, n.ID)
							}
						}
					}
					w.Step()
				}
				if p.Flash != 0 {
					w.PumpGossip()
					w.GossipLazy = true
					fc := w.NewClient("flash", p.Flash, AckAll)
					fc.Connect(ConnectOpts{ClientID: "flash", KeepAlive: 600})
					synctest.Wait()
					w.GossipLazy = false
					w.PumpGossip()
					w.GossipLazy = true
					fc.Subscribe(1, 0, match)
					synctest.Wait()
					fc.Unsubscribe(2, match)
					synctest.Wait()
					w.GossipLazy = false
					w.PumpGossip()
					w.Step()
				}
				// destinations known to the publishing node at publish time
				known := map[int]bool{}
				for _, s := range w.Node(p.Publisher).DState.Subscriptions().All() {
					// from the node's listing + the reference matcher, not from the lookup the publish path itself uses
					if f := strings.TrimPrefix(string(s.Pattern), "_default/"); f != string(s.Pattern) && refMatchTopic(f, topic) {
						known[int(s.Peer)] = true
					}
				}
				unreach := map[int]bool{}
				for _, u := range p.Unreachable {
					unreach[u] = true
					w.SetUnreachable(p.Publisher, u, true)
				}
				w.mu.Lock()
				log0 := len(w.LogEvents)
				w.mu.Unlock()
				w.SetDeviation(p.Dev)
				pub.Publish(topic, "payload-1", p.Qos, false, 7)
				w.Step()
				w.Idle(5 * time.Second)
				if p.Dev != nil {
					w.Idle(5 * time.Second)
				}
				Observe(w, rep)
				w.mu.Lock()
				logs := append([]LogEvent{}, w.LogEvents[log0:]...)
				w.mu.Unlock()
				failed := false
				for n := 1; n <= p.Nodes; n++ {
					okAppends, attempts := 0, 0
					for _, le := range logs {
						if int(le.Node) == n && le.Payload == "payload-1" {
							attempts++
							if le.OK {
								okAppends++
							}
						}
					}
					want := 0
					if known[n] && !(unreach[n] && n != p.Publisher) {
						want = 1
					}
					if n == p.Flash && p.Hosts[n-1]&1 == 0 && p.Extra != n && okAppends > 0 {
						// absolute, not relative to the publisher's listing: nobody on that node holds a matching subscription
						viol("c14-appended-to-wrong-or-twice:flash", "node %d hosts no matching subscription (a client subscribed and unsubscribed there within one gossip round), yet its log saw %d append(s) of the message; the publisher's node lists %v", n, okAppends, w.Node(p.Publisher).View().Subscriptions)
						return
					}
					if known[n] && unreach[n] && n != p.Publisher {
						failed = true
					}
					if okAppends != want || attempts != want {
						sig := "c14-append-count"
						if okAppends > want {
							sig = "c14-appended-to-wrong-or-twice"
						} else if okAppends < want {
							sig = "c14-destination-skipped"
						}
						viol(sig, "node %d's log saw %d successful append(s) (%d attempts) of the message, expected %d (known destinations %v, unreachable %v)", n, okAppends, attempts, want, known, p.Unreachable)
						return
					}
				}
				for _, s := range subs {
					got := 0
					for _, pk := range s.c.Publishes() {
						if string(pk.Payload) == "payload-1" {
							got++
							if string(pk.Topic) != topic {
								viol("c14-topic-altered", "%s received topic %q", s.c.Name, pk.Topic)
								return
							}
						}
					}
					want := 0
					if s.matching && known[s.node] && !(unreach[s.node] && s.node != p.Publisher) {
						want = 1
					}
					if s.matching && s.node == p.StaleGone && !strings.HasSuffix(s.c.Name, "b") {
						want = 0 // it unsubscribed; only the publisher's routing is stale
					}
					if got != want {
						sig := "c14-subscriber-missed"
						if got > want {
							sig = "c14-subscriber-extra"
						}
						viol(sig, "subscriber %s on node %d (matching=%v) received the message %d time(s), expected %d", s.c.Name, s.node, s.matching, got, want)
						return
					}
				}
				if p.Roam {
					// the subscription of session X now belongs to node 2: node 1 must not write to the stale connection
					cnt := func(c *Client) int {
						n := 0
						for _, pk := range c.Publishes() {
							if string(pk.Payload) == "payload-1" {
								n++
							}
						}
						return n
					}
					if cnt(roamOld) != 0 {
						viol("c14-written-to-session-of-another-node", "the roamer's subscription names node 2, yet node 1 wrote the message %d time(s) to its local connection", cnt(roamOld))
						return
					}
				}
				ack := fmt.Sprintf("PUBACK(%d)", 7)
				if p.Qos == 2 {
					ack = fmt.Sprintf("PUBCOMP(%d)", 7)
				}
				if pub.Has(ack) == failed {
					if failed {
						viol("c14-acknowledged-despite-failed-destination", "the publisher received %s although destination(s) %v could not be reached", ack, p.Unreachable)
					} else {
						viol("c14-acknowledgement-missing", "no destination failed but the publisher never received %s", ack)
					}
					return
				}
				if len(known) >= 2 || failed {
					MarkNontrivial(fmt.Sprintf("%+v", p))
					rep.Nontrivial++
				}
				if i%199 == 0 {
					rep.Sample(p)
				}
			})
		},
		func(i int) any { return paths[i] },
		func(rep *vk.Report) {
			rep.Rule = "paths = nodes {2,3} x publisher node x per-node subset of {matching, non-matching subscriber} x every subset of remote nodes unreachable x topic/filter pair x QoS {1,2} (thorough: subscription gossip of one node withheld from the publisher); non-trivial = >= 2 known destination nodes or a failed destination"
			rep.Floor("multi_destination_or_failed", 50, rep.Nontrivial)
		})
}

// TestC14FailedPeer: what a failed node leaves behind must not keep publishes from being acknowledged or delivered. Node 2
// hosts matching subscribers and crashes; between the crash and the moment the survivors' failure detectors report it,
// none / some / all of its clients reconnect to node 1 under their client identifiers (which displaces their old session
// records) and subscribe again or not. Afterwards no subscription of the failed node is listed on a survivor, and a QoS 1
// publish on node 1 is acknowledged and reaches every live matching subscriber exactly once.
func TestC14FailedPeer(t *testing.T) {
	type fp struct {
		Nodes       int  `json:"nodes"`
		Clients     int  `json:"clients_of_failed_node"`
		Reconnect   int  `json:"clients_reconnecting_before_the_failure_is_reported"`
		Resubscribe bool `json:"they_subscribe_again"`
		Lost        bool `json:"session_records_of_the_failed_node_never_reached_node_1"`
	}
	var paths []fp
	for _, n := range []int{2, 3} {
		for c := 1; c <= 2; c++ {
			for r := 0; r <= c; r++ {
				for _, rs := range []bool{false, true} {
					if r == 0 && rs {
						continue
					}
					paths = append(paths, fp{n, c, r, rs, false})
				}
			}
		}
		paths = append(paths, fp{n, 1, 0, false, true})
	}
	RunPaths(t, "C14", "C14/failed-peer", "TestC14FailedPeer", len(paths), vk.Pick(4*time.Minute, 10*time.Minute),
		func(t *testing.T, i int, rep *vk.Report) {
			p := paths[i]
			RunBubble(t, fmt.Sprintf("p%d", i), func(t *testing.T) {
				w := NewWorld(t, p.Nodes)
				defer w.Close()
				viol := func(sig, format string, a ...any) {
					rep.Violate(vk.Violation{Sig: sig, Msg: fmt.Sprintf("%+v: ", p) + fmt.Sprintf(format, a...), Replay: p})
				}
				pub := w.NewClient("pub", 1, AckAll)
				pub.Connect(ConnectOpts{ClientID: "pub", KeepAlive: 600})
				var live []*Client
				if p.Nodes == 3 {
					c := w.NewClient("sub-3", 3, AckAll)
					c.Connect(ConnectOpts{ClientID: "sub-3", KeepAlive: 600})
					c.Subscribe(1, 1, "a/+")
					live = append(live, c)
				}
				w.Step()
				if p.Lost {
					// the session records of node 2 are lost on their way to node 1, its subscriptions arrive
					w.GossipHold = func(int) bool { return true }
				}
				for k := 0; k < p.Clients; k++ {
					c := w.NewClient(fmt.Sprintf("dev-%d", k), 2, AckAll)
					c.Connect(ConnectOpts{ClientID: c.Name, KeepAlive: 600})
					if p.Lost {
						w.Step()
						w.DrainGossip()
						w.Pending = nil
						w.GossipHold = nil
					}
					c.Subscribe(1, 1, "a/b")
					w.Step()
				}
				pub.Publish("a/b", "before", 1, false, 1)
				w.Idle(2 * time.Second)
				if !pub.Has("PUBACK(1)") {
					rep.HarnessError("the publish before the failure was not acknowledged")
					return
				}
				w.Crash(2)
				for k := 0; k < p.Reconnect; k++ {
					c := w.NewClient(fmt.Sprintf("dev-%d-again", k), 1, AckAll)
					if c.Connect(ConnectOpts{ClientID: fmt.Sprintf("dev-%d", k), KeepAlive: 600}) != 0 {
						rep.HarnessError("reconnect refused")
						return
					}
					if p.Resubscribe {
						c.Subscribe(1, 1, "a/b")
						live = append(live, c)
					}
					w.Step()
				}
				w.NotifyLeave(2)
				w.Idle(3 * time.Second)
				for _, n := range w.Nodes {
					if n.Dead {
						continue
					}
					for _, s := range n.DState.Subscriptions().All() {
						if s.Peer == 2 {
							viol("c14-subscription-of-failed-node-still-listed", "after node 2 failed and its failure was reported, node %d still lists subscription %s %s of peer 2 (publishes matching it can never be stored there)", n.ID, s.SessionID, s.Pattern)
							return
						}
					}
				}
				pub.Publish("a/b", "after", 1, false, 2)
				w.Idle(5 * time.Second)
				if !pub.Has("PUBACK(2)") {
					viol("c14-ack-withheld-for-failed-node", "a QoS 1 publish made 3 s after node 2's failure was reported is still unacknowledged 5 s later; publisher inbox %s", pub.InboxDigest())
					return
				}
				for _, c := range live {
					got := 0
					for _, pk := range c.Publishes() {
						if string(pk.Payload) == "after" {
							got++
						}
					}
					if got != 1 {
						viol("c14-live-subscriber-count-after-failure", "live subscriber %s received the publish made after the failure %d time(s), expected 1", c.Name, got)
						return
					}
				}
				Observe(w, rep)
				MarkNontrivial(fmt.Sprint(p))
				rep.Nontrivial++
				rep.Sample(p)
			})
		},
		func(i int) any { return paths[i] },
		func(rep *vk.Report) {
			rep.Rule = "node 2 (1-2 matching subscribers) crashes; 0..all of its clients reconnect to node 1 under their client identifiers before the failure is reported (subscribing again or not), or node 1 never learnt of their session records; then the failure is reported: no survivor lists a subscription of node 2, a QoS 1 publish on node 1 is acknowledged and reaches every live matching subscriber exactly once"
			rep.Floor("paths", int64(len(paths)), rep.Nontrivial)
		})
}

// TestC14FilterSets: destinations are resolved through the subscription index, whose answer for one topic must not depend
// on what else is stored next to a filter. Every set of three and of four filters out of a pool of eight that share
// levels and wildcards, spread over three nodes; one QoS 1 publish of a/b on node 1: appended exactly once on each node
// that hosts a matching filter, nowhere else, acknowledged, and received once per matching subscription.
func TestC14FilterSets(t *testing.T) {
	pool := []string{"a/b", "+/b", "+/+", "+/b/b", "a/+", "#", "a/#", "b/+"}
	type fs struct {
		Filters []string `json:"filters_on_nodes_1_2_3_in_turn"`
	}
	var paths []fs
	var rec func(start int, cur []string)
	rec = func(start int, cur []string) {
		if len(cur) == 3 || len(cur) == 4 {
			paths = append(paths, fs{append([]string{}, cur...)})
		}
		if len(cur) == 4 {
			return
		}
		for k := start; k < len(pool); k++ {
			rec(k+1, append(cur, pool[k]))
		}
	}
	rec(0, nil)
	RunPaths(t, "C14", "C14/filter-sets", "TestC14FilterSets", len(paths), vk.Pick(4*time.Minute, 10*time.Minute),
		func(t *testing.T, i int, rep *vk.Report) {
			p := paths[i]
			RunBubble(t, fmt.Sprintf("p%d", i), func(t *testing.T) {
				w := NewWorld(t, 3)
				defer w.Close()
				viol := func(sig, format string, a ...any) {
					rep.Violate(vk.Violation{Sig: sig, Msg: fmt.Sprintf("%+v: ", p) + fmt.Sprintf(format, a...), Replay: p})
				}
				pub := w.NewClient("pub", 1, AckAll)
				pub.Connect(ConnectOpts{ClientID: "pub", KeepAlive: 600})
				type sub struct {
					c      *Client
					filter string
					node   int
				}
				var subs []sub
				wantNode := map[uint64]bool{}
				for k, f := range p.Filters {
					node := k%3 + 1
					c := w.NewClient(fmt.Sprintf("sub-%d", k), node, AckAll)
					c.Connect(ConnectOpts{ClientID: c.Name, KeepAlive: 600})
					c.Subscribe(1, 1, f)
					w.Step()
					subs = append(subs, sub{c, f, node})
					if refMatchTopic(f, "a/b") {
						wantNode[uint64(node)] = true
					}
				}
				w.Step()
				w.mu.Lock()
				log0 := len(w.LogEvents)
				w.mu.Unlock()
				pub.Publish("a/b", "m", 1, false, 9)
				w.Idle(3 * time.Second)
				perNode := map[uint64]int{}
				w.mu.Lock()
				for _, le := range w.LogEvents[log0:] {
					if le.Payload == "m" && le.OK {
						perNode[le.Node]++
					}
				}
				w.mu.Unlock()
				for n := uint64(1); n <= 3; n++ {
					want := 0
					if wantNode[n] {
						want = 1
					}
					if perNode[n] != want {
						viol("c14-filter-set-destinations", "topic a/b published on node 1: node %d's log took the message %d time(s), expected %d (filters by node: %v)", n, perNode[n], want, p.Filters)
						return
					}
				}
				if !pub.Has("PUBACK(9)") {
					viol("c14-filter-set-not-acknowledged", "every destination stored the message, the publisher has no PUBACK; inbox %s", pub.InboxDigest())
					return
				}
				for _, s := range subs {
					got := 0
					for _, pk := range s.c.Publishes() {
						if string(pk.Payload) == "m" {
							got++
						}
					}
					want := 0
					if refMatchTopic(s.filter, "a/b") {
						want = 1
					}
					if got != want {
						viol("c14-filter-set-delivery", "the subscriber of %s on node %d received the publish of a/b %d time(s), expected %d", s.filter, s.node, got, want)
						return
					}
				}
				if len(wantNode) >= 2 {
					MarkNontrivial(fmt.Sprint(p))
					rep.Nontrivial++
				}
				if i%9 == 0 {
					rep.Sample(p)
				}
			})
		},
		func(i int) any { return paths[i] },
		func(rep *vk.Report) {
			rep.Rule = "every 3- and 4-element subset of 8 filters sharing levels and wildcards, spread over 3 nodes in turn; one QoS 1 publish of a/b on node 1: one successful append on every node hosting a matching filter and none elsewhere, PUBACK, one copy per matching subscription; non-trivial = sets with destinations on at least two nodes"
			rep.Floor("sets_with_two_destination_nodes", 50, rep.Nontrivial)
		})
}
