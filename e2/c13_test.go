package e2

import (
	"fmt"
	"strings"
	"testing"
	"time"

	"github.com/vx-labs/mqtt-protocol/packet"

	"verif/internal/vk"
)

// C13: the will is published exactly when a session dies without DISCONNECT, inside its mount point.

type c13path struct {
	Nodes    int    `json:"nodes"`
	Watchers []int  `json:"watcher_nodes"`
	Topic    string `json:"will_topic"`
	Qos      int32  `json:"will_qos"`
	Retain   bool   `json:"will_retain"`
	Mount    string `json:"mount_point"`
	Cause    string `json:"cause"`
	Payload  string `json:"will_payload"`
	// Dev: exactly one answer of the environment (a broker-to-client write, a log append, an inter-node call) returns 1.5 s
	// after taking effect; installed once the watchers are in place
	Dev *Deviation `json:"one_late_answer,omitempty"`
}

func c13paths() []c13path {
	var out []c13path
	maxN := vk.Pick(2, 3)
	if !vk.Thorough() {
		// three nodes in the quick tier too, for the failure-related causes only
		for _, ws := range [][]int{{2, 3}, {3}, {2}} {
			for _, c := range []string{"leave", "leave-detected-500ms-apart"} {
				for _, mp := range []string{"", "m1"} {
					out = append(out, c13path{3, ws, "w", 1, false, mp, c, "last-words", nil})
				}
			}
		}
	}
	for n := 1; n <= maxN; n++ {
		for mask := 1; mask < 1<<n; mask++ {
			var ws []int
			for k := 0; k < n; k++ {
				if mask&(1<<k) != 0 {
					ws = append(ws, k+1)
				}
			}
			for _, tp := range []string{"w", "w/x"} {
				for q := int32(0); q <= 2; q++ {
					for _, r := range []bool{false, true} {
						for _, mp := range []string{"", "m1"} {
							for _, c := range []string{"disconnect", "drop", "keepalive", "protocol-error", "leave", "disconnect-then-leave-reordered-gossip", "leave-detected-500ms-apart", "disconnect-removal-lost-fullstate-then-leave", "drop-while-other-nodes-unreachable", "connect-answer-lost", "malformed-packet", "disconnect-reconnect-in-one-gossip-round-then-leave"} {
								if strings.Contains(c, "leave") && (n == 1 || (len(ws) == 1 && ws[0] == 1)) {
									continue
								}
								if c == "drop-while-other-nodes-unreachable" && (n == 1 || ws[0] != 1 || len(ws) < 2) {
									continue // needs a watcher on the dying session's own node and one (whose subscription is known there) elsewhere
								}
								if c == "leave-detected-500ms-apart" && n < 3 {
									continue
								}
								out = append(out, c13path{n, ws, tp, q, r, mp, c, "last-words", nil})
								if q == 1 {
									out = append(out, c13path{n, ws, tp, q, r, mp, c, "", nil}) // an empty will payload is legal (retained: it also clears the topic)
								}
								if q == 1 && !r && tp == "w" {
									// a will larger than what one gossip datagram carries (memberlist's budget is 1400 bytes)
									out = append(out, c13path{n, ws, tp, q, r, mp, c, strings.Repeat("last-words-", 200), nil})
								}
							}
						}
					}
				}
			}
		}
	}
	// one late answer, everywhere: two nodes, watchers on both, under every cause that owes a will
	for _, c := range []string{"drop", "keepalive", "protocol-error", "leave"} {
		for _, q := range []int32{0, 1} {
			for k := 1; k <= 16; k++ {
				out = append(out, c13path{2, []int{1, 2}, "w", q, false, "", c, "last-words", &Deviation{"client-write", k, 1500 * time.Millisecond}})
			}
			for k := 1; k <= 3; k++ {
				out = append(out, c13path{2, []int{1, 2}, "w", q, false, "", c, "last-words", &Deviation{"log-append", k, 1500 * time.Millisecond}})
				out = append(out, c13path{2, []int{1, 2}, "w", q, false, "", c, "last-words", &Deviation{"rpc", k, 1500 * time.Millisecond}})
			}
		}
	}
	return out
}

func TestC13Wills(t *testing.T) {
	paths := c13paths()
	RunPaths(t, "C13", "C13/will-messages", "TestC13Wills", len(paths), vk.Pick(8*time.Minute, 30*time.Minute),
		func(t *testing.T, i int, rep *vk.Report) {
			p := paths[i]
			RunBubble(t, fmt.Sprintf("p%d", i), func(t *testing.T) {
				w := NewWorld(t, p.Nodes)
				defer w.Close()
				viol := func(sig, format string, a ...any) {
					rep.Violate(vk.Violation{Sig: sig, Msg: fmt.Sprintf("%+v: ", p) + fmt.Sprintf(format, a...), Replay: p})
				}
				user, foreign := "", "mp:m1"
				if p.Mount != "" {
					user, foreign = "mp:"+p.Mount, ""
				}
				type watcher struct {
					c      *Client
					filter string
					node   int
				}
				var ws []watcher
				for _, n := range p.Watchers {
					for _, f := range []string{"w", "w/+", "#"} {
						c := w.NewClient(fmt.Sprintf("watch-%d-%s", n, f), n, AckAll)
						if c.Connect(ConnectOpts{ClientID: c.Name, KeepAlive: 600, User: user}) != 0 {
							rep.HarnessError("watcher connect")
							return
						}
						c.Subscribe(1, 1, f)
						ws = append(ws, watcher{c, f, n})
					}
				}
				fw := w.NewClient("foreign", p.Nodes, AckAll)
				fw.Connect(ConnectOpts{ClientID: "foreign", KeepAlive: 600, User: foreign})
				fw.Subscribe(1, 1, "#")
				if p.Dev != nil {
					w.Step()
					w.SetDeviation(p.Dev)
				}
				if p.Cause == "disconnect-then-leave-reordered-gossip" {
					w.Step()
					w.GossipHold = func(int) bool { return true } // the dying session's record and its removal travel late
				}
				d := w.NewClient("dying", 1, AckAll)
				if p.Cause == "connect-answer-lost" {
					w.Step() // the watchers' subscriptions are known everywhere before the session exists (it dies at once)
					// the CONNECT is accepted, but the connection breaks before the CONNACK can be written: the session died
					// without DISCONNECT like any other
					d.FailBrokerWrites(true)
					d.Connect(ConnectOpts{ClientID: "dying", KeepAlive: 2, User: user, WillTopic: p.Topic, WillMsg: p.Payload, WillQos: p.Qos, WillRetain: p.Retain})
				} else if d.Connect(ConnectOpts{ClientID: "dying", KeepAlive: 2, User: user, WillTopic: p.Topic, WillMsg: p.Payload, WillQos: p.Qos, WillRetain: p.Retain}) != 0 {
					rep.HarnessError("connect")
					return
				}
				// a client of the OTHER mount point with the dying session's client identifier, connected later, and
				// (for node failures) a second will-bearing session of the other mount point on the failing node
				twin := w.NewClient("twin", 1, AckAll)
				twin.Connect(ConnectOpts{ClientID: "dying", KeepAlive: 600, User: foreign, WillTopic: "w", WillMsg: "foreign-will", WillQos: 1})
				w.Step()
				Observe(w, rep)
				switch p.Cause {
				case "disconnect":
					d.Disconnect()
				case "drop", "connect-answer-lost":
					d.Drop()
				case "drop-while-other-nodes-unreachable":
					// the other nodes stopped answering but have not been declared failed yet: their watchers' subscriptions are
					// still listed on node 1, the will cannot reach them; node 1's own watchers are owed it all the same
					for n := 2; n <= p.Nodes; n++ {
						w.SetUnreachable(1, n, true)
					}
					d.Drop()
				case "keepalive":
					w.Idle(6 * time.Second)
				case "protocol-error":
					d.SendRaw(EncodeConnect(&packet.Connect{Header: &packet.Header{}, ClientId: []byte("dying"), KeepaliveTimer: 2, Clean: true}))
				case "disconnect-reconnect-in-one-gossip-round-then-leave":
					// a clean DISCONNECT and a new connection under the same client identifier (no will this time) on the same
					// node before the node's transmit queue is drained: both records travel in the queue's own order. The node
					// then fails: the first session's will was cancelled by its DISCONNECT and must not be published
					w.GossipLazy = true
					d.Disconnect()
					w.Step()
					again := w.NewClient("dying-again", 1, AckAll)
					again.Connect(ConnectOpts{ClientID: "dying", KeepAlive: 600, User: user})
					w.Step()
					w.GossipLazy = false
					w.PumpGossip()
					w.Step()
					w.Leave(1)
				case "malformed-packet":
					// a SUBSCRIBE whose announced body is empty: the packet decoder runs off the end of the buffer
					d.SendRaw([]byte{0x82, 0x00})
				case "leave":
					w.Leave(1)
				case "disconnect-removal-lost-fullstate-then-leave":
					// the record is known everywhere; the removal after the clean DISCONNECT is lost as gossip and only
					// travels with the periodic full-state exchange
					w.Step()
					w.GossipHold = func(int) bool { return true }
					d.Disconnect()
					w.Step()
					w.DrainGossip()
					w.Pending = nil // lost
					w.GossipHold = nil
					for n := 2; n <= p.Nodes; n++ {
						w.FullState(1, n)
					}
					w.Step()
					w.Leave(1)
				case "leave-detected-500ms-apart":
					w.LeaveStaggered(1, 500*time.Millisecond)
				case "disconnect-then-leave-reordered-gossip":
					d.Disconnect()
					w.Step()
					// the removal overtakes the creation on its way to the survivors
					w.GossipHold = nil
					w.DeliverAll(true)
					w.Step()
					w.Leave(1)
				}
				w.Step()
				w.Idle(10 * time.Second)
				Observe(w, rep)
				if p.Cause == "keepalive" && w.Node(1).Local.Get(d.SessionID) != nil {
					rep.HarnessError("session survived 6 s of silence with keep-alive 2 s; cannot evaluate")
					return
				}
				for _, x := range ws {
					if strings.Contains(p.Cause, "leave") && x.node == 1 {
						continue
					}
					if p.Cause == "drop-while-other-nodes-unreachable" && x.node != 1 {
						continue
					}
					var got []*packet.Publish
					for _, pk := range x.c.Publishes() {
						got = append(got, pk)
					}
					want := 0
					if !strings.HasPrefix(p.Cause, "disconnect") && refMatchTopic(x.filter, p.Topic) {
						want = 1
					}
					wills := 0
					for _, pk := range got {
						if string(pk.Payload) == p.Payload && (p.Payload != "" || string(pk.Topic) == p.Topic) {
							wills++
							if string(pk.Topic) != p.Topic {
								viol("c13-will-topic-altered", "watcher %s received the will on topic %q, the client wrote %q", x.c.Name, pk.Topic, p.Topic)
								return
							}
						} else if string(pk.Payload) == "foreign-will" {
							viol("c13-will-crossed-mount-points", "watcher %s received the will of a session of another mount point: %s", x.c.Name, DescribePacket(pk))
							return
						} else {
							viol("c13-unexpected-message", "watcher %s received %s", x.c.Name, DescribePacket(pk))
							return
						}
					}
					if wills != want {
						sig := "c13-will-missing"
						if wills > want {
							sig = "c13-will-unexpected"
							if want == 1 {
								sig = "c13-will-duplicated"
							}
						}
						viol(sig+":"+p.Cause, "watcher %s (filter %s on node %d, same mount point) received the will %d time(s), expected %d", x.c.Name, x.filter, x.node, wills, want)
						return
					}
				}
				if !(strings.Contains(p.Cause, "leave") && fw.Node.ID == 1) && p.Cause != "drop-while-other-nodes-unreachable" {
					own, other := 0, 0
					for _, pk := range fw.Publishes() {
						if string(pk.Payload) == "foreign-will" && string(pk.Topic) == "w" {
							own++
						} else {
							other++
						}
					}
					wantOwn := 0
					if strings.Contains(p.Cause, "leave") {
						wantOwn = 1 // the twin lived on the failed node and belongs to the foreign watcher's mount point
					}
					if other != 0 {
						viol("c13-will-crossed-mount-points", "a watcher in another mount point received %d message(s) of the dying session's tenant: %s", other, fw.InboxDigest())
						return
					}
					if own != wantOwn {
						viol("c13-will-of-other-tenant-session:"+p.Cause, "the other tenant's watcher received its own tenant's will %d time(s), expected %d: %s", own, wantOwn, fw.InboxDigest())
						return
					}
				}
				if p.Dev != nil && w.DeviationFired() {
					rep.Extra["runs_with_one_late_answer"] = asInt(rep.Extra["runs_with_one_late_answer"]) + 1
				}
				if !strings.HasPrefix(p.Cause, "disconnect") {
					MarkNontrivial(fmt.Sprintf("%+v", p))
					rep.Nontrivial++
				}
				if i%97 == 0 {
					rep.Sample(p)
				}
			})
		},
		func(i int) any { return paths[i] },
		func(rep *vk.Report) {
			rep.Rule = "full cross product of nodes (1-2 quick, 1-3 thorough) x non-empty subset of watcher nodes x will topic {w, w/x} x QoS {0,1,2} x retain x mount point {default, m1} x cause {disconnect, drop, keep-alive expiry, protocol error, failure of the hosting node, drop while the other nodes do not answer, connection lost before the CONNACK was written}; three watchers (w, w/+, #) per watcher node plus one in another mount point; non-trivial = paths where a will was due"
			rep.Floor("wills_due", 50, rep.Nontrivial)
		})
}

// refMatchTopic is the MQTT 4.7 reference (same function as engine E1's).
func refMatchTopic(filter, topic string) bool {
	f, t := splitLevels(filter), splitLevels(topic)
	for i, fl := range f {
		if fl == "#" && i == len(f)-1 {
			return true
		}
		if i >= len(t) {
			return false
		}
		if fl != "+" && fl != t[i] {
			return false
		}
	}
	return len(f) == len(t)
}
func splitLevels(s string) []string {
	var out []string
	cur := ""
	for _, c := range s {
		if c == '/' {
			out = append(out, cur)
			cur = ""
		} else {
			cur += string(c)
		}
	}
	return append(out, cur)
}
