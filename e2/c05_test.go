package e2

import (
	"fmt"
	"strings"
	"testing"
	"time"

	"github.com/vx-labs/mqtt-protocol/packet"

	"verif/internal/vk"
)

// C05: inbound publishes are stored on every destination node before they are acknowledged;
// a QoS 2 message is forwarded exactly once per PUBLISH/PUBREL handshake.

type c05path struct {
	Placement string   `json:"subscribers"` // none, local, remote, both
	FailLocal bool     `json:"local_log_fails"`
	FailRem   bool     `json:"remote_unreachable"`
	FaultFrom int      `json:"faults_from_event"`
	Events    []string `json:"events"`
	Shutdown  bool     `json:"remote_write_interrupted_by_shutdown"`
	// FailRemLog: the remote node is reachable and answers, but its log refuses the append (disk full)
	FailRemLog bool `json:"remote_log_fails,omitempty"`
	// Retain: every PUBLISH of the script carries the retain flag (storing the retained copy is a second side effect of
	// the same publish; its success says nothing about the destinations' logs)
	Retain bool `json:"retain_flag,omitempty"`
}

// rel-namesake: a client of another mount point that uses the same client identifier as the publisher releases the
// identifier of the publisher's pending handshake
var c05events = []string{"pub0", "pub1", "pub1-repeat", "pub1-repeat-dup", "pub2", "pub2-repeat", "pub2-repeat-dup", "rel-pending", "rel-completed", "rel-unknown", "idle", "rel-namesake", "rel-again"}

func c05paths() []c05path {
	var out []c05path
	depth := vk.Pick(3, 4)
	var seqs [][]string
	var rec func(cur []string)
	rec = func(cur []string) {
		if len(cur) > 0 {
			seqs = append(seqs, append([]string{}, cur...))
		}
		if len(cur) == depth {
			return
		}
		for _, e := range c05events {
			// static feasibility: repeats need an earlier publish of that QoS, rel-* an earlier pub2
			has := func(p string) bool {
				for _, c := range cur {
					if strings.HasPrefix(c, p) {
						return true
					}
				}
				return false
			}
			if strings.HasPrefix(e, "pub1-repeat") && !has("pub1") {
				continue
			}
			if (strings.HasPrefix(e, "pub2-repeat") || e == "rel-pending" || e == "rel-completed" || e == "rel-namesake" || e == "rel-again") && !has("pub2") {
				continue
			}
			if e == "rel-completed" && !has("rel-pending") {
				continue
			}
			if e == "idle" && len(cur) > 0 && cur[len(cur)-1] == "idle" {
				continue
			}
			rec(append(cur, e))
		}
	}
	rec(nil)
	type combo struct {
		pl     string
		fl, fr bool
	}
	combos := []combo{{"none", false, false}, {"local", false, false}, {"local", true, false}, {"remote", false, false}, {"remote", false, true},
		{"both", false, false}, {"both", true, false}, {"both", false, true}, {"both", true, true}}
	for _, c := range combos {
		for _, s := range seqs {
			out = append(out, c05path{c.pl, c.fl, c.fr, 0, s, false, false, false})
			if vk.Thorough() && (c.fl || c.fr) && len(s) >= 2 {
				out = append(out, c05path{c.pl, c.fl, c.fr, 1, s, false, false, false})
			}
		}
	}
	// the same publishes with the retain flag, under each write fault
	for _, c := range combos {
		if !c.fl && !c.fr {
			continue
		}
		for _, s := range seqs {
			if len(s) <= 2 {
				out = append(out, c05path{Placement: c.pl, FailLocal: c.fl, FailRem: c.fr, Events: s, Retain: true})
			}
		}
	}
	// the remote node answers but its log refuses the append
	for _, pl := range []string{"remote", "both"} {
		for _, s := range seqs {
			if len(s) <= 2 || vk.Thorough() {
				out = append(out, c05path{Placement: pl, Events: s, FailRemLog: true})
			}
		}
	}
	// two remote destination nodes (three nodes): every one of them must have the message before the acknowledgement
	for _, fr := range []bool{false, true} {
		for _, s := range [][]string{{"pub1"}, {"pub0", "pub1"}, {"pub2", "rel-pending"}, {"pub1", "pub1-repeat-dup"}, {"pub1", "pub2", "rel-pending"}} {
			out = append(out, c05path{"two-remotes", false, fr, 0, s, false, false, false})
			out = append(out, c05path{"local+two-remotes", false, fr, 0, s, false, false, false})
		}
	}
	// the publishing node is stopped while the remote write of the last event is in flight
	for _, pl := range []string{"remote", "both"} {
		for _, s := range [][]string{{"pub1"}, {"pub0", "pub1"}, {"pub2", "rel-pending"}, {"pub1", "pub2", "rel-pending"}} {
			out = append(out, c05path{pl, false, false, 0, s, true, false, false})
		}
	}
	return out
}

func TestC05StoreBeforeAck(t *testing.T) {
	paths := c05paths()
	RunPaths(t, "C05", "C05/store-before-ack", "TestC05StoreBeforeAck", len(paths), vk.Pick(8*time.Minute, 40*time.Minute),
		func(t *testing.T, i int, rep *vk.Report) {
			p := paths[i]
			RunBubble(t, fmt.Sprintf("p%d", i), func(t *testing.T) {
				nn := 2
				if strings.Contains(p.Placement, "two-remotes") {
					nn = 3
				}
				w := NewWorld(t, nn)
				defer w.Close()
				viol := func(sig, format string, a ...any) {
					rep.Violate(vk.Violation{Sig: sig, Msg: fmt.Sprintf("subscribers=%s localFail=%v remoteFail=%v remoteLogFail=%v retain=%v from event %d, script %v: ", p.Placement, p.FailLocal, p.FailRem, p.FailRemLog, p.Retain, p.FaultFrom, p.Events) + fmt.Sprintf(format, a...), Replay: p})
				}
				// the publisher is there first and publishes the topic once while nobody is subscribed anywhere (whatever the node
				// remembers about the topic's destinations must not outlive the arrival of a subscriber)
				pub := w.NewClient("pub", 1, AckNone)
				if pub.Connect(ConnectOpts{ClientID: "pub", KeepAlive: 600}) != 0 {
					rep.HarnessError("connect failed")
					return
				}
				w.Step()
				pub.Publish("t/x", "before-anybody-subscribed", 0, false, 0)
				for k := range p.Events {
					// (every topic the script is going to use)
					pub.Publish("t/"+string(rune('a'+k)), "before-anybody-subscribed", 0, false, 0)
				}
				w.Step()
				var dest []uint64
				if p.Placement == "local" || p.Placement == "both" || p.Placement == "local+two-remotes" {
					c := w.NewClient("sub-local", 1, AckAll)
					c.Connect(ConnectOpts{ClientID: "sub-local", KeepAlive: 600})
					c.Subscribe(1, 1, "t/#")
					dest = append(dest, 1)
				}
				if p.Placement == "remote" || p.Placement == "both" {
					c := w.NewClient("sub-remote", 2, AckAll)
					c.Connect(ConnectOpts{ClientID: "sub-remote", KeepAlive: 600})
					c.Subscribe(1, 1, "t/#")
					dest = append(dest, 2)
				}
				if nn == 3 {
					for _, n3 := range []int{2, 3} {
						c := w.NewClient(fmt.Sprintf("sub-remote%d", n3), n3, AckAll)
						c.Connect(ConnectOpts{ClientID: c.Name, KeepAlive: 600})
						c.Subscribe(1, 1, "t/#")
						dest = append(dest, uint64(n3))
					}
				}
				// a bystander subscription that never matches
				by := w.NewClient("bystander", 2, AckAll)
				by.Connect(ConnectOpts{ClientID: "bystander", KeepAlive: 600})
				by.Subscribe(1, 1, "other/#")

				w.Step()
				// same client identifier as the publisher, other mount point: a different client altogether
				twin := w.NewClient("namesake", 1, AckNone)
				if twin.Connect(ConnectOpts{ClientID: "pub", KeepAlive: 600, User: "mp:elsewhere"}) != 0 {
					rep.HarnessError("connect failed")
					return
				}
				w.Step()
				if pub.BrokerClosed() {
					viol("c05-namesake-displaced-publisher", "a client of another mount point connecting with the same client identifier ended the publisher's session")
					return
				}
				setFaults := func(on bool) {
					w.FailLog(2, on && p.FailRemLog)
					w.FailLog(1, on && p.FailLocal)
					w.SetUnreachable(1, 2, on && p.FailRem)
				}
				shutdownFaulty := func(k int) bool { return p.Shutdown && k == len(p.Events)-1 && has(dest, 2) }
				type pubEv struct {
					qos     int32
					id      int32
					payload string
					topic   string
					faulty  bool // some destination write is expected to fail
					seqSent int64
				}
				var pubs []*pubEv
				nextID := int32(10)
				var last1, last2 *pubEv
				type hs struct {
					ev        *pubEv
					pending   bool
					completed bool
					deadline  time.Time
					forwards  int
				}
				var handshakes []*hs
				findHS := func(pending, completed bool) *hs {
					for k := len(handshakes) - 1; k >= 0; k-- {
						h := handshakes[k]
						if pending && h.pending && time.Now().Before(h.deadline.Add(-500*time.Millisecond)) {
							return h
						}
						if completed && h.completed {
							return h
						}
					}
					return nil
				}
				faultsOn := false
				exercisedFault, exercisedQ2 := false, false
				for k, ev := range p.Events {
					if k >= p.FaultFrom && !faultsOn {
						setFaults(true)
						faultsOn = true
					}
					if p.Shutdown && k == len(p.Events)-1 {
						w.ShutdownOnCall(1, true)
					}
					w.mu.Lock()
					log0, rpc0 := len(w.LogEvents), len(w.RPCEvents)
					w.mu.Unlock()
					expectForward := false
					var fwdPayload, fwdTopic string
					// every event publishes on a topic of its own (same length): what is stored for a handshake must be the topic
					// of ITS publish, whatever the session published in between
					evTopic := "t/" + string(rune('a'+k))
					sessionAlive := w.Node(1).Local.Get(pub.SessionID) != nil
					switch {
					case ev == "pub0":
						e := &pubEv{qos: 0, payload: fmt.Sprintf("m%d", k), topic: evTopic, faulty: faultsOn && len(dest) > 0 && ((p.FailLocal && has(dest, 1)) || ((p.FailRem || p.FailRemLog) && has(dest, 2)))}
						pub.Publish(e.topic, e.payload, 0, p.Retain, 0)
						expectForward, fwdPayload, fwdTopic = true, e.payload, e.topic
					case strings.HasPrefix(ev, "pub1"):
						e := &pubEv{qos: 1, payload: fmt.Sprintf("m%d", k), topic: evTopic}
						if strings.Contains(ev, "repeat") {
							if last1 == nil {
								return
							}
							e.id = last1.id
						} else {
							nextID++
							e.id = nextID
						}
						e.faulty = (faultsOn && ((p.FailLocal && has(dest, 1)) || ((p.FailRem || p.FailRemLog) && has(dest, 2)))) || shutdownFaulty(k)
						e.seqSent = w.Seq()
						pub.Send(&packet.Publish{Header: &packet.Header{Qos: 1, Dup: strings.HasSuffix(ev, "dup"), Retain: p.Retain}, Topic: []byte(e.topic), Payload: []byte(e.payload), MessageId: e.id})
						pubs = append(pubs, e)
						last1 = e
						expectForward, fwdPayload, fwdTopic = true, e.payload, e.topic
					case strings.HasPrefix(ev, "pub2"):
						pendingSame := false
						if last2 != nil {
							for _, h := range handshakes {
								if h.ev.id == last2.id && h.pending && time.Now().Before(h.deadline.Add(-500*time.Millisecond)) {
									pendingSame = true
								}
							}
						}
						if strings.Contains(ev, "repeat") && last2 == nil {
							return
						}
						if strings.Contains(ev, "repeat") && pendingSame {
							// retransmission of the same message while its handshake is pending: same identifier, same payload
							pub.Send(&packet.Publish{Header: &packet.Header{Qos: 2, Dup: strings.HasSuffix(ev, "dup"), Retain: p.Retain}, Topic: []byte(last2.topic), Payload: []byte(last2.payload), MessageId: last2.id})
						} else {
							// a fresh handshake; "repeat" after the earlier handshake ended (completed, failed or
							// timed out) legitimately reuses its identifier for a new message
							e := &pubEv{qos: 2, payload: fmt.Sprintf("m%d", k), topic: evTopic}
							if strings.Contains(ev, "repeat") {
								e.id = last2.id
							} else {
								nextID++
								e.id = nextID
							}
							e.seqSent = w.Seq()
							pub.Send(&packet.Publish{Header: &packet.Header{Qos: 2, Dup: strings.HasSuffix(ev, "dup"), Retain: p.Retain}, Topic: []byte(e.topic), Payload: []byte(e.payload), MessageId: e.id})
							pubs = append(pubs, e)
							last2 = e
							if sessionAlive {
								handshakes = append(handshakes, &hs{ev: e, pending: true, deadline: time.Now().Add(3 * time.Second)})
							}
						}
					case ev == "rel-pending":
						h := findHS(true, false)
						if h == nil {
							return // infeasible here: no handshake is pending
						}
						h.ev.faulty = (faultsOn && ((p.FailLocal && has(dest, 1)) || ((p.FailRem || p.FailRemLog) && has(dest, 2)))) || shutdownFaulty(k)
						pub.Send(&packet.PubRel{Header: &packet.Header{}, MessageId: h.ev.id})
						h.pending = false
						h.completed = !h.ev.faulty // a failed forward completes nothing: the client may start over
						expectForward, fwdPayload, fwdTopic = sessionAlive, h.ev.payload, h.ev.topic
						exercisedQ2 = true
					case ev == "rel-completed":
						h := findHS(false, true)
						if h == nil {
							return
						}
						for _, o := range handshakes {
							if o != h && o.ev.id == h.ev.id && o.pending {
								return // that identifier is in use by a newer handshake: this would be rel-pending
							}
						}
						pub.Send(&packet.PubRel{Header: &packet.Header{}, MessageId: h.ev.id})
					case ev == "rel-again":
						// the client sends PUBREL once more for a handshake that is over without having completed (its forward
						// failed, or it timed out): there is nothing to release, and nothing stored to acknowledge
						var h *hs
						for k := len(handshakes) - 1; k >= 0; k-- {
							if !handshakes[k].pending && !handshakes[k].completed {
								h = handshakes[k]
								break
							}
						}
						if h == nil {
							return
						}
						for _, o := range handshakes {
							if o != h && o.ev.id == h.ev.id && (o.pending || o.completed) {
								return // the identifier belongs to another handshake by now
							}
						}
						pub.Send(&packet.PubRel{Header: &packet.Header{}, MessageId: h.ev.id})
						rep.Extra["paths_with_release_of_a_failed_handshake"] = asInt(rep.Extra["paths_with_release_of_a_failed_handshake"]) + 1
					case ev == "rel-namesake":
						h := findHS(true, false)
						if h == nil {
							return
						}
						twin.Send(&packet.PubRel{Header: &packet.Header{}, MessageId: h.ev.id})
						rep.Extra["paths_with_release_by_namesake"] = asInt(rep.Extra["paths_with_release_by_namesake"]) + 1
					case ev == "rel-unknown":
						pub.Send(&packet.PubRel{Header: &packet.Header{}, MessageId: 999})
					case ev == "idle":
						w.Idle(5 * time.Second)
						for _, h := range handshakes {
							h.pending = false
						}
					}
					w.Step()
					Observe(w, rep)
					w.mu.Lock()
					newLogs := append([]LogEvent{}, w.LogEvents[log0:]...)
					newRPC := append([]RPCEvent{}, w.RPCEvents[rpc0:]...)
					w.mu.Unlock()
					if !expectForward || !sessionAlive {
						if len(newLogs) != 0 || len(newRPC) != 0 {
							viol("c05-unexpected-forward:"+evKind(ev), "event %d (%s) must not forward anything, but %d log append(s) and %d inter-node call(s) happened: %v", k, ev, len(newLogs), len(newRPC), newLogs)
							return
						}
						continue
					}
					// exactly one attempt per destination node, none elsewhere
					perNode := map[uint64]int{}
					for _, le := range newLogs {
						if le.Payload != fwdPayload {
							viol("c05-foreign-append", "event %d (%s) appended an unrelated message %v", k, ev, le)
							return
						}
						if le.Topic != "_default/"+fwdTopic {
							viol("c05-stored-under-another-topic:"+evKind(ev), "event %d (%s): the message published on %q was handed to node %d's log under topic %q", k, ev, fwdTopic, le.Node, le.Topic)
							return
						}
						perNode[le.Node]++
					}
					remoteBlocked := (faultsOn && p.FailRem) || shutdownFaulty(k)
					for _, n := range []uint64{1, 2, 3} {
						want := 0
						if has(dest, n) {
							want = 1
							if n == 2 && remoteBlocked {
								want = 0 // the call itself fails before reaching the remote log
							}
						}
						if perNode[n] != want {
							viol("c05-forward-count:"+evKind(ev), "event %d (%s): node %d's log saw %d append attempt(s) of this message, expected %d (destinations %v)", k, ev, n, perNode[n], want, dest)
							return
						}
					}
					wantRPC := 0
					if has(dest, 2) {
						wantRPC++
					}
					if has(dest, 3) {
						wantRPC++
					}
					if len(newRPC) != wantRPC {
						viol("c05-rpc-count:"+evKind(ev), "event %d (%s): %d inter-node call(s), expected %d", k, ev, len(newRPC), wantRPC)
						return
					}
				}
				w.Idle(10 * time.Second)
				// (a) acknowledgements only for fully stored messages
				stored := func(e *pubEv) (bool, int64) {
					var maxSeq int64
					for _, n := range dest {
						ok := false
						w.mu.Lock()
						for _, le := range w.LogEvents {
							if le.Node == n && le.Payload == e.payload && le.OK {
								ok = true
								if le.Seq > maxSeq {
									maxSeq = le.Seq
								}
							}
						}
						w.mu.Unlock()
						if !ok {
							return false, 0
						}
					}
					return true, maxSeq
				}
				byID := map[int32][]*pubEv{}
				for _, e := range pubs {
					byID[e.id] = append(byID[e.id], e)
				}
				for id, es := range byID {
					var ackSeqs []int64
					want := "PUBACK"
					if es[0].qos == 2 {
						want = "PUBCOMP"
					}
					for _, r := range pub.Received() {
						if r.String() == fmt.Sprintf("%s(%d)", want, id) {
							ackSeqs = append(ackSeqs, r.Seq)
						}
					}
					var storedSeqs []int64
					anyFaulty := false
					for _, e := range es {
						if ok, s := stored(e); ok {
							storedSeqs = append(storedSeqs, s)
						}
						if e.faulty {
							anyFaulty = true
							exercisedFault = true
						}
					}
					if len(ackSeqs) > len(storedSeqs) && len(dest) > 0 {
						sig := "c05-acknowledged-without-storage"
						viol(sig+":"+want, "%d %s(%d) received but only %d of the %d publish(es) with that identifier were accepted by every destination log %v (fault expected: %v)", len(ackSeqs), want, id, len(storedSeqs), len(es), dest, anyFaulty)
						return
					}
					for k := range ackSeqs {
						if k < len(storedSeqs) && len(dest) > 0 && ackSeqs[k] < storedSeqs[k] {
							viol("c05-acknowledged-before-storage:"+want, "%s(%d) was read by the client (seq %d) before the last destination append succeeded (seq %d)", want, id, ackSeqs[k], storedSeqs[k])
							return
						}
					}
				}
				key := fmt.Sprintf("%v", p)
				if exercisedFault || exercisedQ2 {
					MarkNontrivial(key)
					rep.Nontrivial++
				}
				if exercisedFault {
					rep.Extra["paths_with_failed_destination"] = asInt(rep.Extra["paths_with_failed_destination"]) + 1
				}
				if exercisedQ2 {
					rep.Extra["paths_with_qos2_release"] = asInt(rep.Extra["paths_with_qos2_release"]) + 1
				}
				if i%301 == 0 {
					rep.Sample(p)
				}
			})
		},
		func(i int) any { return paths[i] },
		func(rep *vk.Report) {
			rep.Rule = "paths = (subscriber placement none|local|remote|both, fault subset of {local log write fails, remote node unreachable}, publisher script over " + strings.Join(c05events, ",") + "); per event the recording log proxies and transport count forward attempts; non-trivial = paths with a failed destination or a QoS 2 release"
			rep.Bounds["depth"] = vk.Pick(3, 4)
			rep.Floor("failed_destination", 20, int64(asInt(rep.Extra["paths_with_failed_destination"])))
			rep.Floor("qos2_release", 20, int64(asInt(rep.Extra["paths_with_qos2_release"])))
		})
}

func has(xs []uint64, x uint64) bool {
	for _, y := range xs {
		if y == x {
			return true
		}
	}
	return false
}
func evKind(ev string) string {
	if i := strings.Index(ev, "-"); i > 0 && strings.HasPrefix(ev, "pub") {
		return ev[:i] + "-repeat"
	}
	return ev
}

// TestC05SlowRemote: the remote destination answers, but late (its log takes seconds per append). However long the
// publishing node waits or gives up, the message must not be appended twice per handshake on the remote log, and an
// acknowledgement still presupposes one successful append there.
func TestC05SlowRemote(t *testing.T) {
	type sp struct {
		DelayMs int   `json:"remote_append_takes_ms"`
		Qos     int32 `json:"qos"`
		Local   bool  `json:"local_subscriber_too"`
	}
	var paths []sp
	for _, d := range []int{900, 1500, 2600, 4000, 7000} {
		for q := int32(0); q <= 2; q++ {
			for _, l := range []bool{false, true} {
				paths = append(paths, sp{d, q, l})
			}
		}
	}
	RunPaths(t, "C05", "C05/slow-remote-log", "TestC05SlowRemote", len(paths), vk.Pick(4*time.Minute, 10*time.Minute),
		func(t *testing.T, i int, rep *vk.Report) {
			p := paths[i]
			RunBubble(t, fmt.Sprintf("p%d", i), func(t *testing.T) {
				w := NewWorld(t, 2)
				defer w.Close()
				viol := func(sig, format string, a ...any) {
					rep.Violate(vk.Violation{Sig: sig, Msg: fmt.Sprintf("%+v: ", p) + fmt.Sprintf(format, a...), Replay: p})
				}
				remote := w.NewClient("sub-remote", 2, AckAll)
				remote.Connect(ConnectOpts{ClientID: "sub-remote", KeepAlive: 600})
				remote.Subscribe(1, 1, "t/#")
				if p.Local {
					local := w.NewClient("sub-local", 1, AckAll)
					local.Connect(ConnectOpts{ClientID: "sub-local", KeepAlive: 600})
					local.Subscribe(1, 1, "t/#")
				}
				pub := w.NewClient("pub", 1, AckAll)
				pub.Connect(ConnectOpts{ClientID: "pub", KeepAlive: 600})
				w.Step()
				w.SlowLog(2, time.Duration(p.DelayMs)*time.Millisecond)
				pub.Publish("t/x", "once", p.Qos, false, 7)
				w.Idle(40 * time.Second)
				w.SlowLog(2, 0)
				w.Idle(5 * time.Second)
				Observe(w, rep)
				okAppends, attempts := 0, 0
				w.mu.Lock()
				for _, le := range w.LogEvents {
					if le.Node == 2 && le.Payload == "once" {
						attempts++
						if le.OK {
							okAppends++
						}
					}
				}
				w.mu.Unlock()
				if okAppends > 1 {
					viol("c05-appended-twice-on-slow-remote", "one publish (one handshake) was appended %d times (%d attempts) to the log of the slow remote node", okAppends, attempts)
					return
				}
				acked := pub.Has("PUBACK(7)") || pub.Has("PUBCOMP(7)")
				if acked && okAppends == 0 {
					viol("c05-acknowledged-without-storage:slow-remote", "the publisher was acknowledged although the remote node's log never accepted the message (%d attempts)", attempts)
					return
				}
				got := 0
				for _, pk := range remote.Publishes() {
					if string(pk.Payload) == "once" {
						got++
					}
				}
				if got > 1 && p.Qos < 2 {
					// (a QoS 1 subscriber may see retransmissions only if it did not acknowledge; this one acknowledges at once)
					viol("c05-delivered-twice-on-slow-remote", "the remote subscriber received the message %d times", got)
					return
				}
				if okAppends == 1 {
					MarkNontrivial(fmt.Sprint(p))
					rep.Nontrivial++
				}
				rep.Sample(p)
			})
		},
		func(i int) any { return paths[i] },
		func(rep *vk.Report) {
			rep.Rule = "one publish (QoS 0/1/2) whose remote destination's log takes 0.9 / 1.5 / 2.6 / 4 / 7 s per append, with and without a local subscriber: at most one successful append on the remote log, an acknowledgement only with one, the remote subscriber receives it at most once"
			rep.Floor("stored_once", 5, rep.Nontrivial)
		})
}

// TestC05RealLogFailure: the failure comes from the on-disk log itself, not from the seam in front of it. The node's log
// holds one entry less than a full segment; its directory is then made unusable (the volume went away: nothing new can be
// created in it, the open segment still accepts writes). The first stored publish fills the segment, every later one needs
// a new segment, which the log cannot create. Every sequence of up to three publishes (QoS 0 / 1 / complete QoS 2
// handshake): what the publisher is acknowledged for must be readable back from the log.
func TestC05RealLogFailure(t *testing.T) {
	type rp struct {
		Events     []string `json:"events"`
		RoomBefore int      `json:"entries_that_still_fit"`
	}
	var paths []rp
	var rec func(cur []string)
	rec = func(cur []string) {
		if len(cur) > 0 {
			for _, room := range []int{0, 1} {
				paths = append(paths, rp{append([]string{}, cur...), room})
			}
		}
		if len(cur) == 3 {
			return
		}
		for _, e := range []string{"pub0", "pub1", "pub2+rel"} {
			rec(append(cur, e))
		}
	}
	rec(nil)
	RunPaths(t, "C05", "C05/real-log-failure", "TestC05RealLogFailure", len(paths), vk.Pick(4*time.Minute, 10*time.Minute),
		func(t *testing.T, i int, rep *vk.Report) {
			p := paths[i]
			RunBubble(t, fmt.Sprintf("p%d", i), func(t *testing.T) {
				w := NewWorld(t, 1, NodeOpts{Prefill: 500 - p.RoomBefore, PrefillState: -1})
				defer w.Close()
				viol := func(sig, format string, a ...any) {
					rep.Violate(vk.Violation{Sig: sig, Msg: fmt.Sprintf("%+v: ", p) + fmt.Sprintf(format, a...), Replay: p})
				}
				sub := w.NewClient("sub-local", 1, AckAll)
				sub.Connect(ConnectOpts{ClientID: "sub-local", KeepAlive: 600})
				sub.Subscribe(1, 1, "t/#")
				pub := w.NewClient("pub", 1, AckAll)
				if pub.Connect(ConnectOpts{ClientID: "pub", KeepAlive: 600}) != 0 {
					rep.HarnessError("connect failed")
					return
				}
				w.Idle(2 * time.Second) // the consumer works through the prefilled entries
				if err := w.BreakLogDir(1); err != nil {
					rep.HarnessError("could not make the log directory unusable: %v", err)
					return
				}
				sawRefusal := false
				for k, ev := range p.Events {
					payload := fmt.Sprintf("m%d", k)
					id := int32(20 + k)
					switch ev {
					case "pub0":
						pub.Publish("t/x", payload, 0, false, 0)
					case "pub1":
						pub.Publish("t/x", payload, 1, false, id)
					case "pub2+rel":
						pub.Publish("t/x", payload, 2, false, id)
						w.Step()
						pub.Send(&packet.PubRel{Header: &packet.Header{}, MessageId: id})
					}
					w.Idle(1500 * time.Millisecond)
					inLog, err := w.LogHolds(1, payload)
					if err != nil {
						rep.HarnessError("reading the log back: %v", err)
						return
					}
					acked := pub.Has(fmt.Sprintf("PUBACK(%d)", id)) || pub.Has(fmt.Sprintf("PUBCOMP(%d)", id))
					if ev != "pub0" && acked && !inLog {
						viol("c05-acknowledged-without-storage:real-log-failure", "event %d (%s): the publisher got its final acknowledgement, but the node's log (whose directory is unusable, %d entries still fitted) does not hold the message", k, ev, p.RoomBefore)
						return
					}
					if k >= p.RoomBefore && inLog {
						rep.HarnessError("the log accepted entry %d although its directory is unusable: the fault does not bite", k)
						return
					}
					if !inLog {
						sawRefusal = true
					}
				}
				if sawRefusal {
					MarkNontrivial(fmt.Sprint(p))
					rep.Nontrivial++
				}
				if i%7 == 0 {
					rep.Sample(p)
				}
			})
		},
		func(i int) any { return paths[i] },
		func(rep *vk.Report) {
			rep.Rule = "single node whose on-disk log is one or zero entries short of a full segment and whose directory has become unusable (real I/O failure when the next segment is created, no seam involved); every sequence of up to 3 publishes (QoS 0, QoS 1, QoS 2 with its release): a final acknowledgement only for a message that can be read back from the log"
			rep.Floor("refused_appends", 20, rep.Nontrivial)
		})
}
