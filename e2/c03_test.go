package e2

import (
	"fmt"
	"strings"
	"testing"
	"time"

	"github.com/vx-labs/mqtt-protocol/packet"
	"github.com/vx-labs/wasp/v4/wasp"
	"github.com/vx-labs/wasp/v4/wasp/auth"

	"verif/internal/vk"
)

// C03: unacknowledged QoS 1/2 deliveries are retransmitted (same identifier) until completed;
// afterwards nothing more is sent and the identifier is reusable.

type c03path struct {
	SmallPool       bool     `json:"small_id_pool"`
	Deliveries      int      `json:"deliveries"`
	Events          []string `json:"events"`
	FirstWriteFails bool     `json:"first_transmission_write_fails"`
	// SwappedArming: both deliveries fall into one second and the second one's registration reaches the queue first
	SwappedArming bool `json:"registrations_reach_the_queue_in_reverse_order,omitempty"`
}

// static automaton used to enumerate only meaningful scripts
func c03paths() []c03path {
	var out []c03path
	maxLen := vk.Pick(6, 7)
	gen := func(nd int, small bool, maxLen int, faults bool) {
		qos := []int{1, 2, 1}[:nd]
		sess := []int{0, 0, 1}[:nd]
		type st struct {
			acks    []int
			wt      []int
			wid     int
			stray   int
			silent  int
			dropped []bool
			collide int // deliveries whose identifier the subscriber has used for an inbound QoS 2 PUBLISH
			wfail   int
		}
		var rec func(ev []string, s st)
		rec = func(ev []string, s st) {
			if len(ev) > 0 && (!faults || s.collide+s.wfail > 0) {
				out = append(out, c03path{small, nd, append([]string{}, ev...), false, false})
				if nd == 2 && len(ev) <= 3 && !faults && !small {
					out = append(out, c03path{small, nd, append([]string{}, ev...), false, true})
				}
				if nd == 2 && len(ev) <= vk.Pick(3, 4) && !faults {
					out = append(out, c03path{small, nd, append([]string{}, ev...), true, false})
				}
			}
			if len(ev) >= maxLen {
				return
			}
			clone := func() st {
				return st{append([]int{}, s.acks...), append([]int{}, s.wt...), s.wid, s.stray, s.silent, append([]bool{}, s.dropped...), s.collide, s.wfail}
			}
			anyPending := false
			for j := 0; j < nd; j++ {
				done := s.acks[j] >= qos[j] || s.dropped[sess[j]]
				if !done {
					anyPending = true
					n := clone()
					n.acks[j]++
					rec(append(ev, fmt.Sprintf("ack%d", j)), n)
					if s.wt[j] < 1 {
						n := clone()
						n.wt[j]++
						rec(append(ev, fmt.Sprintf("wrongtype%d", j)), n)
					}
				}
			}
			if faults {
				// the subscriber publishes at QoS 2 under the identifier of a delivery the broker has in flight to it
				// (client and broker number their packets independently)
				for j := 0; j < nd; j++ {
					if s.acks[j] < qos[j] && !s.dropped[sess[j]] && s.collide&(1<<j) == 0 {
						// the broker may end the session at this point: the run follows what it observes and the rest of
						// the script then applies to the surviving deliveries only
						n := clone()
						n.collide |= 1 << j
						rec(append(ev, fmt.Sprintf("inbound-qos2-same-id%d", j)), n)
					}
				}
				// the socket refuses the broker's writes during one retransmission period, then works again
				if s.wfail < 1 && anyPending {
					n := clone()
					n.wfail++
					rec(append(ev, "silent-writes-fail"), n)
				}
			}
			if s.wid < 1 && !faults {
				n := clone()
				n.wid++
				rec(append(ev, "wrongid"), n)
			}
			if s.stray < 1 && anyPending && !faults {
				n := clone()
				n.stray++
				rec(append(ev, "stray-qos2-acks"), n)
			}
			// another session, which has nothing in flight, ends while the scripted deliveries are pending
			if s.stray < 2 && s.stray >= 0 && anyPending && !faults && len(ev) <= 1 && !strings.Contains(strings.Join(ev, " "), "other-session-ends") {
				n := clone()
				rec(append(ev, "other-session-ends"), n)
			}
			if !s.dropped[0] {
				n := clone()
				n.dropped[0] = true
				rec(append(ev, "displace0"), n)
			}
			if s.silent < vk.Pick(2, 3) && anyPending {
				n := clone()
				n.silent++
				rec(append(ev, "silent"), n)
			}
			for k := 0; k < len(s.dropped); k++ {
				if !s.dropped[k] {
					n := clone()
					n.dropped[k] = true
					rec(append(ev, fmt.Sprintf("drop%d", k)), n)
				}
			}
		}
		ns := 1
		if nd == 3 {
			ns = 2
		}
		rec(nil, st{make([]int, nd), make([]int, nd), 0, 0, 0, make([]bool, ns), 0, 0})
	}
	gen(2, false, maxLen, false)
	gen(2, true, maxLen, false)
	gen(2, true, vk.Pick(4, 5), true)
	if vk.Thorough() {
		gen(3, true, 6, false)
		gen(3, false, 5, false)
		gen(2, false, 4, true)
	}
	return out
}

type c03delivery struct {
	sess    int
	topic   string
	qos     int32
	phase   int // 0 await PUBACK/PUBREC, 1 await PUBCOMP, 2 done
	id      int32
	doneCnt int // packets for this delivery in the inbox at completion
	doneAt  time.Time
}

func TestC03Retransmission(t *testing.T) {
	paths := c03paths()
	RunPaths(t, "C03", "C03/retransmission", "TestC03Retransmission", len(paths), vk.Pick(8*time.Minute, 40*time.Minute),
		func(t *testing.T, i int, rep *vk.Report) {
			p := paths[i]
			RunBubble(t, fmt.Sprintf("p%d", i), func(t *testing.T) {
				o := NodeOpts{PrefillState: -1}
				if p.SmallPool {
					o.PoolMin, o.PoolMax = 0, 3
				}
				w := NewWorld(t, 1, o)
				defer w.Close()
				viol := func(sig, format string, a ...any) {
					rep.Violate(vk.Violation{Sig: sig, Msg: fmt.Sprintf("script %v (small pool %v, first write fails %v, swapped arming %v): ", p.Events, p.SmallPool, p.FirstWriteFails, p.SwappedArming) + fmt.Sprintf(format, a...), Replay: p})
				}
				nSess := 1
				if p.Deliveries == 3 {
					nSess = 2
				}
				var subs []*Client
				for k := 0; k < nSess; k++ {
					c := w.NewClient(fmt.Sprintf("sub%d", k), 1, AckNone)
					if c.Connect(ConnectOpts{ClientID: c.Name, KeepAlive: 600}) != 0 {
						rep.HarnessError("connect failed")
						return
					}
					if k == 0 {
						c.Subscribe(1, 1, "q1/#")
						c.Subscribe(2, 2, "q2/#")
					} else {
						c.Subscribe(1, 1, "q1/#")
					}
					subs = append(subs, c)
				}
				// a bystander with other QoS levels on the same filters (recipients of one message with mixed QoS);
				// it subscribes after the scripted sessions and acknowledges everything promptly
				mix := w.NewClient("mix", 1, AckAll)
				mix.Connect(ConnectOpts{ClientID: "mix", KeepAlive: 600})
				w.Step()
				mix.Subscribe(1, 0, "q1/#")
				mix.Subscribe(2, 1, "q2/#")
				// and one whose SUBSCRIBE asks for the reserved QoS 3 on the same filters (the broker does not refuse it): whatever
				// the broker does for such a recipient must not cost anybody an identifier
				q3 := w.NewClient("q3", 1, AckAll)
				q3.Connect(ConnectOpts{ClientID: "q3", KeepAlive: 600})
				w.Step()
				q3.Subscribe(1, 3, "q1/#")
				q3.Subscribe(2, 3, "q2/#")
				pub := w.NewClient("pub", 1, AckAll)
				pub.Connect(ConnectOpts{ClientID: "pub", KeepAlive: 600})
				w.Step()
				// a warm-up message consumes log offset/identifier quirks before the measured deliveries
				ds := []*c03delivery{{sess: 0, topic: "q1/a", qos: 1}, {sess: 0, topic: "q2/b", qos: 2}}
				if p.Deliveries == 3 {
					ds = append(ds, &c03delivery{sess: 1, topic: "q1/a", qos: 1})
				}
				if p.FirstWriteFails {
					subs[0].FailBrokerWrites(true) // the first transmission of both deliveries errors at the socket
				}
				if p.SwappedArming {
					// both registrations in one one-second bucket
					frac := time.Duration(time.Now().Nanosecond())
					w.Idle((time.Second + 550*time.Millisecond - frac) % time.Second) // deadlines are bucketed by rounding: [s-0.5, s+0.5)
					w.Node(1).SwapNextArming()
				}
				pub.Publish("q1/a", "pa", 1, false, 1)
				w.Step()
				pub.Publish("q2/b", "pb", 1, false, 2)
				w.Step()
				w.Idle(700 * time.Millisecond) // identifier 0 costs the writer one 100 ms retry
				if p.FirstWriteFails {
					subs[0].FailBrokerWrites(false)
					w.Idle(6 * time.Second) // the deliveries must come with the next retransmission
				}
				count := func(d *c03delivery) (n int, ids map[int32]bool) {
					ids = map[int32]bool{}
					for _, r := range subs[d.sess].Received() {
						switch x := r.Pkt.(type) {
						case *packet.Publish:
							if string(x.Topic) == d.topic && d.phase == 0 {
								n++
								ids[x.MessageId] = true
							}
						case *packet.PubRel:
							if d.phase == 1 && x.MessageId == d.id {
								n++
								ids[x.MessageId] = true
							}
						}
					}
					return
				}
				total := func(d *c03delivery) int {
					n := 0
					for _, r := range subs[d.sess].Received() {
						switch x := r.Pkt.(type) {
						case *packet.Publish:
							if string(x.Topic) == d.topic {
								n++
							}
						case *packet.PubRel:
							if x.MessageId == d.id {
								n++
							}
						}
					}
					return n
				}
				for _, d := range ds {
					n, ids := count(d)
					if n < 1 {
						viol("c03-initial-delivery-missing", "delivery %s to sub%d was never sent", d.topic, d.sess)
						return
					}
					for id := range ids {
						d.id = id
					}
				}
				dropped := make([]bool, nSess)
				endedByBroker := make([]bool, nSess)
				sawRetransmit, sawQoS2Done, sawWriteFail := false, false, false
				checkInvariants := func(after string) bool {
					for _, d := range ds {
						// same identifier / payload on every copy
						for _, r := range subs[d.sess].Received() {
							if x, ok := r.Pkt.(*packet.Publish); ok && string(x.Topic) == d.topic {
								if x.MessageId != d.id || x.Header.Qos != d.qos || string(x.Payload) != map[string]string{"q1/a": "pa", "q2/b": "pb"}[d.topic] {
									viol("c03-retransmission-differs", "after %s: copy of %s to sub%d is %s, first copy had id %d", after, d.topic, d.sess, DescribePacket(x), d.id)
									return false
								}
							}
						}
						if d.phase == 2 && total(d) != d.doneCnt {
							viol("c03-sent-after-completion", "after %s: delivery %s (id %d) to sub%d was completed but %d more packet(s) were sent for it", after, d.topic, d.id, d.sess, total(d)-d.doneCnt)
							return false
						}
					}
					// distinct identifiers among in-flight deliveries
					seen := map[int32]string{}
					for _, d := range ds {
						if d.phase != 2 && !dropped[d.sess] {
							if o, ok := seen[d.id]; ok {
								viol("c03-identifier-shared", "deliveries %s and %s are in flight with the same identifier %d", o, d.topic, d.id)
								return false
							}
							seen[d.id] = d.topic
						}
					}
					for k, c := range subs {
						if c.BrokerClosed() && !endedByBroker[k] {
							viol("c03-session-ended", "after %s: the broker ended %s's session", after, c.Name)
							return false
						}
					}
					return true
				}
				for _, ev := range p.Events {
					var j int
					if n, _ := fmt.Sscanf(ev[strings.LastIndexAny(ev, "abcdefghijklmnopqrstuvwxyz-")+1:], "%d", &j); n == 1 && !strings.HasPrefix(ev, "drop") && !strings.HasPrefix(ev, "displace") && dropped[ds[j].sess] {
						continue // the session of this delivery is gone (ended by the broker at a colliding PUBLISH)
					}
					if (ev == "displace0" || ev == "drop0") && dropped[0] || ev == "drop1" && dropped[1] {
						continue
					}
					switch {
					case strings.HasPrefix(ev, "inbound-qos2-same-id"):
						fmt.Sscanf(ev, "inbound-qos2-same-id%d", &j)
						d := ds[j]
						c := subs[d.sess]
						c.Send(&packet.Publish{Header: &packet.Header{Qos: 2}, MessageId: d.id, Topic: []byte("elsewhere/x"), Payload: []byte("inbound")})
						w.Step()
						if c.BrokerClosed() {
							// allowed: the session ended, so every delivery to it is over and its identifiers must come back
							dropped[d.sess] = true
							endedByBroker[d.sess] = true
							rep.Extra["paths_where_colliding_publish_ended_the_session"] = asInt(rep.Extra["paths_where_colliding_publish_ended_the_session"]) + 1
						}
					case ev == "silent-writes-fail":
						var latest time.Time
						w.mu.Lock()
						for _, ai := range w.Node(1).AckInserts {
							if ai.Err == "" && ai.Deadline.After(latest) {
								latest = ai.Deadline
							}
						}
						w.mu.Unlock()
						for k, c := range subs {
							if !dropped[k] {
								c.FailBrokerWrites(true)
							}
						}
						wait := time.Until(latest)
						if wait < 0 {
							wait = 0
						}
						w.Idle(wait + 500*time.Millisecond) // exactly one retransmission round hits the failing socket
						for k, c := range subs {
							if !dropped[k] {
								c.FailBrokerWrites(false)
							}
						}
						sawWriteFail = true
					case strings.HasPrefix(ev, "ack"):
						fmt.Sscanf(ev, "ack%d", &j)
						d := ds[j]
						c := subs[d.sess]
						switch {
						case d.qos == 1:
							c.Send(&packet.PubAck{Header: &packet.Header{}, MessageId: d.id})
							w.Step()
							d.phase = 2
						case d.phase == 0:
							c.Send(&packet.PubRec{Header: &packet.Header{}, MessageId: d.id})
							w.Step()
							d.phase = 1
							if n, _ := count(d); n < 1 {
								viol("c03-pubrel-missing", "PUBREC(%d) was sent for %s but no PUBREL followed", d.id, d.topic)
								return
							}
						default:
							c.Send(&packet.PubComp{Header: &packet.Header{}, MessageId: d.id})
							w.Step()
							d.phase = 2
							sawQoS2Done = true
						}
						if d.phase == 2 {
							d.doneCnt = total(d)
							d.doneAt = time.Now()
						}
					case strings.HasPrefix(ev, "wrongtype"):
						fmt.Sscanf(ev, "wrongtype%d", &j)
						d := ds[j]
						c := subs[d.sess]
						switch {
						case d.qos == 1:
							c.Send(&packet.PubComp{Header: &packet.Header{}, MessageId: d.id})
						case d.phase == 0:
							c.Send(&packet.PubAck{Header: &packet.Header{}, MessageId: d.id})
						default:
							c.Send(&packet.PubAck{Header: &packet.Header{}, MessageId: d.id})
						}
						w.Step()
					case ev == "wrongid":
						subs[0].Send(&packet.PubAck{Header: &packet.Header{}, MessageId: 4242})
						w.Step()
					case ev == "silent":
						before := map[*c03delivery]int{}
						var latest time.Time
						for _, d := range ds {
							if d.phase != 2 && !dropped[d.sess] {
								before[d], _ = count(d)
							}
						}
						// the deadline the implementation registered, not a constant
						w.mu.Lock()
						for _, ai := range w.Node(1).AckInserts {
							if ai.Err == "" && ai.Deadline.After(latest) {
								latest = ai.Deadline
							}
						}
						w.mu.Unlock()
						wait := time.Until(latest)
						if wait < 0 {
							wait = 0
						}
						w.Idle(wait + 2500*time.Millisecond)
						for d, n0 := range before {
							n1, _ := count(d)
							if n1 <= n0 {
								what := "PUBLISH"
								if d.phase == 1 {
									what = "PUBREL"
								}
								viol("c03-not-retransmitted:"+what, "after staying silent past the registered deadline (+2.5 s): %s for %s (id %d) to sub%d was not sent again (copies %d -> %d)", what, d.topic, d.id, d.sess, n0, n1)
								return
							}
							sawRetransmit = true
						}
					case ev == "stray-qos2-acks":
						// another session (the bystander) acknowledges, QoS 2 style, an identifier that is in flight for
						// somebody else: PUBREC then PUBCOMP with the identifier of the first pending delivery
						for _, d := range ds {
							if d.phase != 2 && !dropped[d.sess] {
								mix.Send(&packet.PubRec{Header: &packet.Header{}, MessageId: d.id})
								w.Step()
								mix.Send(&packet.PubComp{Header: &packet.Header{}, MessageId: d.id})
								w.Step()
								break
							}
						}
					case ev == "other-session-ends":
						q3.Drop()
						w.Step()
					case ev == "displace0":
						// a new connection with the same client identifier takes sub0's place; sub0 notices at its next keep-alive exchange
						nc := w.NewClient("sub0-again", 1, AckAll)
						nc.Connect(ConnectOpts{ClientID: "sub0", KeepAlive: 600})
						w.Step()
						subs[0].Ping()
						w.Step()
						if w.Node(1).Local.Get(subs[0].SessionID) != nil {
							viol("c03-displaced-session-still-registered", "after a newer connection took its client identifier and it pinged, sub0's session is still registered on the node (its deliveries would be retransmitted forever)")
							return
						}
						subs[0].Drop()
						dropped[0] = true
						w.Step()
					case strings.HasPrefix(ev, "drop"):
						fmt.Sscanf(ev, "drop%d", &j)
						subs[j].Drop()
						dropped[j] = true
						w.Step()
					}
					Observe(w, rep)
					if !checkInvariants(ev) {
						return
					}
				}
				// finalize: horizon 60 s
				pendingBefore := map[*c03delivery]int{}
				for _, d := range ds {
					if d.phase != 2 && !dropped[d.sess] {
						pendingBefore[d], _ = count(d)
					}
				}
				w.Idle(60 * time.Second)
				Observe(w, rep)
				if !checkInvariants("the 60 s horizon") {
					return
				}
				for d, n0 := range pendingBefore {
					if n1, _ := count(d); n1 < n0+5 {
						viol("c03-retransmission-stops", "pending delivery %s (id %d) was sent only %d more time(s) during 60 s of silence", d.topic, d.id, n1-n0)
						return
					}
				}
				// identifiers of completed deliveries and of ended sessions are free again
				free := func(id int32) bool {
					for _, iv := range wasp.VerifWriterPool(w.Node(1).Writer).Intervals() {
						if iv[0] < id && id <= iv[1] {
							return true
						}
					}
					return false
				}
				for _, d := range ds {
					if (d.phase == 2 || dropped[d.sess]) && !free(d.id) {
						viol("c03-identifier-leaked", "delivery %s (id %d) to sub%d is over (completed=%v, session dropped=%v) but its identifier is still taken after 60 s", d.topic, d.id, d.sess, d.phase == 2, dropped[d.sess])
						return
					}
					if d.phase != 2 && !dropped[d.sess] && free(d.id) {
						viol("c03-identifier-released-in-flight", "delivery %s (id %d) is still in flight but its identifier is free", d.topic, d.id)
						return
					}
				}
				// probe: a new message for ONE live session still gets an identifier and is delivered,
				// provided the pool has a free identifier by the reference count (3 usable ids in the
				// small pool, minus the deliveries legitimately still in flight)
				inFlight := 0
				for _, d := range ds {
					if d.phase != 2 && !dropped[d.sess] {
						inFlight++
					}
				}
				// no exchange is given up on before its time: a registration for (session, identifier) that follows an earlier
				// one (a retransmission re-arms it) comes at the earliest one second before the deadline registered before
				// (deadlines are honoured to the second)
				{
					type key struct {
						s  string
						id int32
						tp byte
					}
					last := map[key]AckInsert{}
					w.mu.Lock()
					ins := append([]AckInsert{}, w.Node(1).AckInserts...)
					acked := append([]AckInsert{}, w.Node(1).AckResolved...)
					w.mu.Unlock()
					ackedBetween := func(a, b AckInsert) bool {
						for _, x := range acked {
							if x.Session == a.Session && x.ID == a.ID && x.Seq > a.Seq && x.Seq < b.Seq {
								return true
							}
						}
						return false
					}
					for _, ai := range ins {
						if ai.Err != "" {
							continue
						}
						k := key{ai.Session, ai.ID, ai.Type}
						if prev, ok := last[k]; ok && ai.At.Before(prev.Deadline.Add(-time.Second)) && ai.At.After(prev.At) && !ackedBetween(prev, ai) {
							viol("c03-expired-before-its-deadline", "the exchange of session %s, identifier %d registered at +%v with deadline +%v was registered again at +%v: it was given up on %.1f s early", ai.Session, ai.ID, prev.At.Sub(ins[0].At), prev.Deadline.Sub(ins[0].At), ai.At.Sub(ins[0].At), prev.Deadline.Sub(ai.At).Seconds())
							return
						}
						last[k] = ai
					}
				}
				// every identifier is either free or belongs to a delivery that is legitimately still in flight
				{
					total, freeIDs := int32(65535), int32(0)
					if p.SmallPool {
						total = 3
					}
					for _, iv := range wasp.VerifWriterPool(w.Node(1).Writer).Intervals() {
						lo := iv[0]
						if lo < 0 {
							lo = 0
						}
						if iv[1] > lo {
							freeIDs += iv[1] - lo
						}
					}
					if out := int(total - freeIDs); out != inFlight {
						viol("c03-identifiers-unaccounted", "%d identifier(s) are taken after the 60 s horizon but only %d deliver(ies) are still legitimately in flight (free list %v)", out, inFlight, wasp.VerifWriterPool(w.Node(1).Writer).Intervals())
						return
					}
				}
				reuse := false
				target, probeTopic := -1, ""
				if !dropped[0] {
					target, probeTopic = 0, "q2/z"
				} else if nSess > 1 && !dropped[1] {
					target, probeTopic = 1, "q1/z"
				}
				if target >= 0 && (!p.SmallPool || inFlight < 3) {
					pub.Publish(probeTopic, "pz", 1, false, 9)
					w.Idle(2 * time.Second)
					c := subs[target]
					got := false
					for _, x := range c.Publishes() {
						if string(x.Topic) == probeTopic {
							got = true
							for _, d := range ds {
								if d.phase == 2 && d.id == x.MessageId {
									reuse = true
								}
							}
						}
					}
					if !got {
						viol("c03-no-identifier-for-new-message", "after the script (%d deliveries still in flight) a new message was not delivered to %s (identifier pool exhausted by leaked identifiers?)", inFlight, c.Name)
						return
					}
				}
				// exhausted pool: the harness takes every identifier that is still free (as many deliveries in flight would); a
				// further QoS > 0 message may wait or be given up on, but nothing may go out under an identifier that is taken or
				// that is no identifier at all. The production range (65535 identifiers) on a sixteenth of the paths (cost).
				if p.SmallPool || i%16 == 0 {
					pool := wasp.VerifWriterPool(w.Node(1).Writer)
					taken := map[int32]bool{}
					for k := 0; k < 70000; k++ {
						id := pool.Get()
						if id < 1 {
							break
						}
						taken[id] = true
					}
					poolMax := int32(65535)
					if p.SmallPool {
						poolMax = 3
					}
					pub.Publish("q2/exhausted", "px", 1, false, 11)
					w.Idle(1500 * time.Millisecond)
					for _, c := range append(append([]*Client{}, subs...), mix, q3) {
						for _, x := range c.Publishes() {
							if string(x.Topic) != "q2/exhausted" || x.Header.Qos == 0 {
								continue
							}
							if taken[x.MessageId] || x.MessageId < 1 || x.MessageId > poolMax {
								viol("c03-identifier-from-exhausted-pool", "with every identifier of the pool (1..%d) taken, a message was sent to %s at QoS %d under identifier %d, which %s", poolMax, c.Name, x.Header.Qos, x.MessageId,
									map[bool]string{true: "is in use", false: "the pool cannot have handed out"}[taken[x.MessageId]])
								return
							}
						}
					}
					rep.Extra["paths_with_exhausted_pool_probe"] = asInt(rep.Extra["paths_with_exhausted_pool_probe"]) + 1
				}
				key := fmt.Sprintf("%v/%v", p.SmallPool, p.Events)
				if sawRetransmit {
					MarkNontrivial(key)
					rep.Nontrivial++
					rep.Extra["paths_with_retransmission"] = asInt(rep.Extra["paths_with_retransmission"]) + 1
				}
				if sawWriteFail {
					rep.Extra["paths_with_failed_retransmission_write"] = asInt(rep.Extra["paths_with_failed_retransmission_write"]) + 1
				}
				if sawQoS2Done {
					rep.Extra["paths_with_completed_qos2"] = asInt(rep.Extra["paths_with_completed_qos2"]) + 1
				}
				if reuse {
					rep.Extra["paths_with_identifier_reuse"] = asInt(rep.Extra["paths_with_identifier_reuse"]) + 1
				}
				if i%211 == 0 {
					rep.Sample(p)
				}
			})
		},
		func(i int) any { return paths[i] },
		func(rep *vk.Report) {
			rep.Rule = "paths = client response scripts over {ack_j, wrongtype_j, wrongid, silent, drop_k} (plus, in a shorter family, {inbound QoS 2 PUBLISH under the identifier of in-flight delivery j, one retransmission round whose socket writes fail}) for 2 (thorough: also 3) in-flight deliveries (QoS 1 and QoS 2, 1-2 sessions), production and 3-identifier pools; all interleavings with bounded self-loops; silence advances past the deadline the implementation registered + 2.5 s; non-trivial = paths with at least one observed retransmission"
			rep.Bounds["max_events"] = vk.Pick(6, 7)
			rep.Bounds["horizon"] = "60 s virtual after the script"
			rep.Floor("retransmissions", 10, int64(asInt(rep.Extra["paths_with_retransmission"])))
			rep.Floor("completed_qos2", 10, int64(asInt(rep.Extra["paths_with_completed_qos2"])))
			rep.Floor("identifier_reuse", 1, int64(asInt(rep.Extra["paths_with_identifier_reuse"])))
		})
}

func asInt(v any) int {
	switch x := v.(type) {
	case int:
		return x
	case float64:
		return int(x)
	case int64:
		return int(x)
	}
	return 0
}

// TestC03TimerPhase: one QoS 1 delivery to a silent subscriber for every combination of sweep-ticker
// phase and registration time inside a second (tenths): whatever the sub-second alignment of the
// deadline with the per-second buckets and the ticker, the delivery must be sent again.
func TestC03TimerPhase(t *testing.T) {
	type tp struct {
		TickerPhaseMs int   `json:"ticker_phase_ms"`
		DelayMs       int   `json:"publish_delay_ms"`
		Qos           int32 `json:"qos"`
	}
	var paths []tp
	for ph := 0; ph < 1000; ph += vk.Pick(100, 50) {
		for d := 0; d < 1000; d += vk.Pick(100, 50) {
			paths = append(paths, tp{ph, d, 1})
			if vk.Thorough() || (ph/100+d/100)%3 == 0 {
				paths = append(paths, tp{ph, d, 2})
			}
			// the same with the second delivery 2.5 - 3.5 s after the acknowledged first one (its deadline is armed while
			// the first one's is still ahead)
			if vk.Thorough() || (ph/100+d/100)%2 == 0 {
				paths = append(paths, tp{ph, 2500 + d, 1})
			}
		}
	}
	RunPaths(t, "C03", "C03/timer-phase", "TestC03TimerPhase", len(paths), vk.Pick(5*time.Minute, 20*time.Minute),
		func(t *testing.T, i int, rep *vk.Report) {
			p := paths[i]
			RunBubble(t, fmt.Sprintf("p%d", i), func(t *testing.T) {
				time.Sleep(time.Duration(p.TickerPhaseMs) * time.Millisecond) // the node's ticker starts at this sub-second phase
				w := NewWorld(t, 1)
				defer w.Close()
				sub := w.NewClient("sub", 1, AckNone)
				sub.Connect(ConnectOpts{ClientID: "sub", KeepAlive: 600})
				sub.Subscribe(1, p.Qos, "t/#")
				pub := w.NewClient("pub", 1, AckAll)
				pub.Connect(ConnectOpts{ClientID: "pub", KeepAlive: 600})
				w.Step()
				// burn identifier 0 (costs the writer a 100 ms retry) with a throw-away delivery that is acknowledged
				pub.Publish("t/warmup", "w", 1, false, 1)
				w.Idle(time.Second)
				for _, pk := range sub.Publishes() {
					if p.Qos == 1 {
						sub.Send(&packet.PubAck{Header: &packet.Header{}, MessageId: pk.MessageId})
					} else {
						sub.Send(&packet.PubRec{Header: &packet.Header{}, MessageId: pk.MessageId})
						w.Step()
						sub.Send(&packet.PubComp{Header: &packet.Header{}, MessageId: pk.MessageId})
					}
				}
				w.Step()
				time.Sleep(time.Duration(p.DelayMs) * time.Millisecond)
				pub.Publish("t/x", "payload", 1, false, 2)
				w.Step()
				count := func() int {
					n := 0
					for _, pk := range sub.Publishes() {
						if string(pk.Topic) == "t/x" {
							n++
						}
					}
					return n
				}
				if count() != 1 {
					rep.Violate(vk.Violation{Sig: "c03-initial-delivery-missing", Msg: fmt.Sprintf("%+v: first transmission count %d", p, count()), Replay: p})
					return
				}
				w.Idle(8 * time.Second) // deadline (3 s) + sweep period + margin, twice over
				Observe(w, rep)
				if n := count(); n < 2 {
					rep.Violate(vk.Violation{Sig: "c03-not-retransmitted:timer-phase", Msg: fmt.Sprintf("%+v: the unacknowledged delivery was sent %d time(s) in 8 s of silence (deadline 3 s, sweep every second)", p, n), Replay: p})
					return
				}
				// the session goes away with the delivery still unacknowledged: its identifier comes back
				sub.Drop()
				w.Idle(8 * time.Second)
				free := int32(0)
				for _, iv := range wasp.VerifWriterPool(w.Node(1).Writer).Intervals() {
					lo := iv[0]
					if lo < 0 {
						lo = 0
					}
					if iv[1] > lo {
						free += iv[1] - lo
					}
				}
				if free != 65535 {
					rep.Violate(vk.Violation{Sig: "c03-identifier-leaked:timer-phase", Msg: fmt.Sprintf("%+v: 8 s after the silent subscriber's connection was lost %d identifier(s) are still taken (free list %v)", p, 65535-free, wasp.VerifWriterPool(w.Node(1).Writer).Intervals()), Replay: p})
					return
				}
				MarkNontrivial(fmt.Sprintf("%+v", p))
				rep.Nontrivial++
				if i%17 == 0 {
					rep.Sample(p)
				}
			})
		},
		func(i int) any { return paths[i] },
		func(rep *vk.Report) {
			rep.Rule = "paths = sweep-ticker phase x registration time within a second, in tenths (thorough: twentieths), QoS 1 and 2: one unacknowledged delivery must be retransmitted within 8 s whatever the alignment of its deadline with the per-second buckets and the ticker"
			rep.Floor("paths", 50, rep.Nontrivial)
		})
}

// TestC03SessionDigits: session identifiers come from the authentication back end and may end in digits, so the text of
// one session identifier followed by a packet identifier can read the same as another session's (s + 12 = s1 + 2). Two
// such sessions with deliveries 12 and 2 in flight: each must get all of its messages, an acknowledgement completes only
// the acknowledging session's delivery, and the other one's goes on being retransmitted.
func TestC03SessionDigits(t *testing.T) {
	type dp struct {
		SessionA string `json:"session_a"`
		SessionB string `json:"session_b"`
		BFirst   bool   `json:"b_connects_first"`
	}
	var paths []dp
	for _, a := range []string{"s", "gw-1", "7"} {
		paths = append(paths, dp{a, a + "1", false}, dp{a, a + "1", true})
	}
	RunPaths(t, "C03", "C03/session-id-digits", "TestC03SessionDigits", len(paths), vk.Pick(4*time.Minute, 10*time.Minute),
		func(t *testing.T, i int, rep *vk.Report) {
			p := paths[i]
			RunBubble(t, fmt.Sprintf("p%d", i), func(t *testing.T) {
				w := NewWorld(t, 1)
				defer w.Close()
				viol := func(sig, format string, a ...any) {
					rep.Violate(vk.Violation{Sig: sig, Msg: fmt.Sprintf("%+v: ", p) + fmt.Sprintf(format, a...), Replay: p})
				}
				mk := func(name, sid, filter string) *Client {
					c := w.NewClient(name, 1, AckNone)
					if c.Connect(ConnectOpts{ClientID: name, KeepAlive: 600, User: "sid:" + sid}) != 0 {
						rep.HarnessError("connect failed")
						return nil
					}
					c.Subscribe(1, 1, filter)
					return c
				}
				var a, b *Client
				if p.BFirst {
					b = mk("b", p.SessionB, "b/#")
					a = mk("a", p.SessionA, "a/#")
				} else {
					a = mk("a", p.SessionA, "a/#")
					b = mk("b", p.SessionB, "b/#")
				}
				if a == nil || b == nil {
					return
				}
				if a.SessionID != p.SessionA || b.SessionID != p.SessionB {
					rep.HarnessError("the authentication seam did not hand out the requested session identifiers (%q, %q)", a.SessionID, b.SessionID)
					return
				}
				pub := w.NewClient("pub", 1, AckAll)
				pub.Connect(ConnectOpts{ClientID: "pub", KeepAlive: 600})
				w.Step()
				// identifiers are handed out in order: a gets 1, b gets 2, a gets 3..12
				pub.Publish("a/1", "m", 1, false, 1)
				w.Idle(500 * time.Millisecond)
				pub.Publish("b/1", "m", 1, false, 2)
				w.Step()
				for k := 2; k <= 11; k++ {
					pub.Publish(fmt.Sprintf("a/%d", k), "m", 1, false, int32(10+k))
					w.Step()
				}
				idOf := func(c *Client, topic string) (int32, int) {
					id, n := int32(-1), 0
					for _, pk := range c.Publishes() {
						if string(pk.Topic) == topic {
							id = pk.MessageId
							n++
						}
					}
					return id, n
				}
				idB, nB := idOf(b, "b/1")
				idA, nA := idOf(a, "a/11")
				if nB == 0 || nA == 0 {
					viol("c03-initial-delivery-missing:digits", "a received a/11 %d time(s) and b received b/1 %d time(s) (identifiers %d and %d)", nA, nB, idA, idB)
					return
				}
				rep.Extra["identifier_pairs"] = fmt.Sprintf("%s+%d / %s+%d", p.SessionA, idA, p.SessionB, idB)
				if fmt.Sprintf("%s%d", p.SessionA, idA) != fmt.Sprintf("%s%d", p.SessionB, idB) {
					rep.HarnessError("the identifiers in flight (%d for a, %d for b) do not run together with the session identifiers: the scenario is vacuous", idA, idB)
					return
				}
				// b acknowledges its delivery; a stays silent
				b.Send(&packet.PubAck{Header: &packet.Header{}, MessageId: idB})
				w.Step()
				_, before := idOf(a, "a/11")
				w.Idle(6 * time.Second)
				if _, after := idOf(a, "a/11"); after <= before {
					viol("c03-not-retransmitted:digits", "after %s acknowledged its own identifier %d, the unacknowledged delivery a/11 (identifier %d) to %s was not sent again within 6 s", p.SessionB, idB, idA, p.SessionA)
					return
				}
				if _, nb := idOf(b, "b/1"); nb != nB {
					viol("c03-sent-after-completion:digits", "b's acknowledged delivery was sent %d more time(s)", nb-nB)
					return
				}
				MarkNontrivial(fmt.Sprint(p))
				rep.Nontrivial++
				rep.Sample(p)
			})
		},
		func(i int) any { return paths[i] },
		func(rep *vk.Report) {
			rep.Rule = "session identifiers A and A+\"1\" (handed out by the authentication seam) with deliveries under packet identifiers 12 and 2 in flight, so that session text followed by identifier digits coincide; both sessions get their messages, b's acknowledgement completes only b's delivery, a's is retransmitted"
			rep.Floor("paths", 6, rep.Nontrivial)
		})
}

// TestC03Reconnect: a device reconnects under its client identifier while the broker still holds its previous connection
// (half-open TCP connection, roaming), with the session identifiers the broker's own authentication handlers hand out. A
// QoS 1 / QoS 2 delivery is left unacknowledged on the NEW connection and the old connection goes away before or after
// the delivery: the delivery must go on being retransmitted on the new connection and complete on its acknowledgement.
func TestC03Reconnect(t *testing.T) {
	type rp struct {
		Handler   string `json:"authentication_handler"`
		Qos       int32  `json:"qos"`
		OldEnds   string `json:"old_connection"`
		DropFirst bool   `json:"old_connection_ends_before_the_delivery"`
	}
	var paths []rp
	for _, h := range []string{"none", "static"} {
		for _, q := range []int32{1, 2} {
			for _, oe := range []string{"drops", "pings-then-drops", "stays"} {
				for _, df := range []bool{false, true} {
					if oe == "stays" && df {
						continue
					}
					paths = append(paths, rp{h, q, oe, df})
				}
			}
		}
	}
	RunPaths(t, "C03", "C03/reconnect-under-same-client-id", "TestC03Reconnect", len(paths), vk.Pick(4*time.Minute, 10*time.Minute),
		func(t *testing.T, i int, rep *vk.Report) {
			p := paths[i]
			var h auth.AuthenticationHandler
			user, pass := "", ""
			if p.Handler == "static" {
				h, _ = auth.StaticHandler("alice", "pw-alice")
				user, pass = "alice", "pw-alice"
			} else {
				h = auth.NoopHandler()
			}
			AuthOverride = h
			defer func() { AuthOverride = nil }()
			RunBubble(t, fmt.Sprintf("p%d", i), func(t *testing.T) {
				w := NewWorld(t, 1)
				defer w.Close()
				viol := func(sig, format string, a ...any) {
					rep.Violate(vk.Violation{Sig: sig, Msg: fmt.Sprintf("%+v: ", p) + fmt.Sprintf(format, a...), Replay: p})
				}
				old := w.NewClient("dev-old", 1, AckNone)
				if old.Connect(ConnectOpts{ClientID: "dev", KeepAlive: 600, User: user, Password: pass}) != 0 {
					rep.HarnessError("connect failed")
					return
				}
				old.Subscribe(1, p.Qos, "q/#")
				w.Step()
				cur := w.NewClient("dev-new", 1, AckNone)
				if cur.Connect(ConnectOpts{ClientID: "dev", KeepAlive: 600, User: user, Password: pass}) != 0 {
					viol("c03-reconnect-refused", "the second connection under the same client identifier was refused")
					return
				}
				cur.Subscribe(1, p.Qos, "q/#")
				pub := w.NewClient("pub", 1, AckAll)
				pub.Connect(ConnectOpts{ClientID: "pub", KeepAlive: 600, User: user, Password: pass})
				w.Step()
				endOld := func() {
					switch p.OldEnds {
					case "pings-then-drops":
						old.Ping()
						w.Step()
						old.Drop()
					case "drops":
						old.Drop()
					}
					w.Step()
				}
				if p.DropFirst {
					endOld()
				}
				pub.Publish("q/a", "m", 1, false, 5)
				w.Step()
				if !p.DropFirst {
					endOld()
				}
				copies := func() (n int, id int32) {
					for _, pk := range cur.Publishes() {
						if string(pk.Topic) == "q/a" {
							n++
							id = pk.MessageId
						}
					}
					return
				}
				// the device's current session is untouched by whatever happened to its previous connection: it is answered, it is
				// registered, its subscription is listed
				cur.Ping()
				w.Step()
				if cur.BrokerClosed() || cur.Count("PINGRESP") == 0 {
					viol("c11-ended-without-cause:reconnect", "the device's current connection was closed or its PINGREQ left unanswered after its previous connection %s (closed by the broker: %v)", p.OldEnds, cur.BrokerClosed())
					return
				}
				registered, listed := 0, 0
				for _, sess := range w.Node(1).Local.ListSessions() {
					if sess.ClientID() == "dev" {
						registered++
					}
				}
				for _, sub := range w.Node(1).DState.Subscriptions().All() {
					if string(sub.Pattern) == "_default/q/#" {
						listed++
					}
				}
				wantSessions := 1
				if p.OldEnds == "stays" {
					wantSessions = 2 // the previous connection has not noticed yet
				}
				if registered != wantSessions || listed < 1 {
					viol("c11-live-session-lost-its-registration:reconnect", "after the device's previous connection %s, %d session(s) of the device are registered on the node (expected %d) and %d subscription(s) to q/# are listed (expected at least 1)", p.OldEnds, registered, wantSessions, listed)
					return
				}
				n0, id := copies()
				if n0 == 0 {
					viol("c03-initial-delivery-missing:reconnect", "the message never reached the device's new connection (broker closed it: %v)", cur.BrokerClosed())
					return
				}
				w.Idle(8 * time.Second)
				n1, _ := copies()
				if n1 <= n0 {
					viol("c03-not-retransmitted:reconnect", "the unacknowledged QoS %d delivery (identifier %d) on the device's new connection was not sent again during 8 s (copies %d -> %d; new connection closed by the broker: %v)", p.Qos, id, n0, n1, cur.BrokerClosed())
					return
				}
				if p.Qos == 1 {
					cur.Send(&packet.PubAck{Header: &packet.Header{}, MessageId: id})
				} else {
					cur.Send(&packet.PubRec{Header: &packet.Header{}, MessageId: id})
					w.Step()
					cur.Send(&packet.PubComp{Header: &packet.Header{}, MessageId: id})
				}
				w.Step()
				n2, _ := copies()
				w.Idle(10 * time.Second)
				if n3, _ := copies(); n3 != n2 {
					viol("c03-sent-after-completion:reconnect", "the delivery was acknowledged, yet %d more copies were sent during the next 10 s", n3-n2)
					return
				}
				Observe(w, rep)
				MarkNontrivial(fmt.Sprint(p))
				rep.Nontrivial++
				rep.Sample(p)
			})
		},
		func(i int) any { return paths[i] },
		func(rep *vk.Report) {
			rep.Rule = "a device connects twice under one client identifier (session identifiers chosen by the broker's none / static handlers), the older connection still open; a QoS 1 / 2 delivery stays unacknowledged on the newer connection while the older one drops, pings and drops, or stays, before or after the delivery: the delivery is retransmitted on the newer connection and ends on its acknowledgement"
			rep.Floor("paths", int64(len(paths)), rep.Nontrivial)
		})
}
