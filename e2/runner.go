package e2

import (
	"bytes"
	"encoding/json"
	"fmt"
	"os"
	"os/exec"
	"path/filepath"
	"sort"
	"strconv"
	"strings"
	"sync"
	"syscall"
	"testing"
	"time"

	"verif/internal/vk"
)

// PathFunc executes path i (inside its own bubble) and reports into rep.
type PathFunc func(t *testing.T, i int, rep *vk.Report)

// RunPaths executes paths [0,n) in crash-contained worker subprocesses (the broker has no
// recover(): a panic in any of its goroutines ends the process, which is itself an observation).
// The parent hands out index ranges; a child writes the index it is about to run to a progress
// file, so a crash is attributed to exactly one path and exploration resumes after it.
func RunPaths(t *testing.T, property, phase, testName string, n int, budget time.Duration, run PathFunc, describe func(i int) any, finish func(rep *vk.Report)) {
	if rf := os.Getenv("VERIF_REPLAY"); rf != "" {
		// replay: re-execute exactly the recorded path five times, no search
		raw, err := os.ReadFile(rf)
		if err != nil {
			t.Fatal(err)
		}
		var body struct {
			Replay json.RawMessage `json:"replay"`
		}
		json.Unmarshal(raw, &body)
		var want any
		json.Unmarshal(body.Replay, &want)
		wantS, _ := json.Marshal(want)
		rep := vk.NewReport(property, phase, "E2-brokermc")
		found := false
		for i := 0; i < n; i++ {
			b, _ := json.Marshal(describe(i))
			var norm any
			json.Unmarshal(b, &norm)
			nb, _ := json.Marshal(norm)
			if string(nb) != string(wantS) {
				continue
			}
			found = true
			hits := 0
			for k := 0; k < 5; k++ {
				before := rep.ViolationsTotal
				run(t, i, rep)
				if rep.ViolationsTotal > before {
					hits++
				}
			}
			fmt.Fprintf(HarnessOut, "replayed path %d five times: violation reproduced %d/5\n", i, hits)
			rep.Extra["replay_reproduced_of_5"] = hits
			rep.Paths, rep.Evaluations, rep.States, rep.Transitions = 5, 5, 1, 5
		}
		if !found {
			rep.HarnessError("the replay file describes no path of this phase at the current tier")
		}
		rep.Write()
		return
	}
	if only := os.Getenv("VERIF_ONLY"); only != "" {
		// debugging / replay aid: run the paths whose description contains the given text, in-process
		rep := vk.NewReport(property, phase, "E2-brokermc")
		for i := 0; i < n; i++ {
			if strings.Contains(fmt.Sprintf("%+v", describe(i)), only) {
				run(t, i, rep)
				fmt.Fprintf(HarnessOut, "path %d %+v -> %d violation(s)\n", i, describe(i), rep.ViolationsTotal)
			}
		}
		for _, v := range rep.Violations {
			fmt.Fprintln(HarnessOut, "  ", v.Sig, v.Msg)
		}
		return
	}
	if r := os.Getenv("VERIF_RANGE"); r != "" {
		runChild(t, property, phase, r, run)
		return
	}
	deadline := time.Now().Add(budget)
	if s := os.Getenv("VERIF_BUDGET_S"); s != "" {
		if v, err := strconv.Atoi(s); err == nil {
			deadline = time.Now().Add(time.Duration(v) * time.Second)
		}
	}
	workers := vk.Workers()
	batch := n / (workers * 6)
	if batch < 20 {
		batch = 20
	}
	if batch > 400 {
		batch = 400
	}
	type rng struct{ lo, hi int }
	var mu sync.Mutex
	var queue []rng
	for lo := 0; lo < n; lo += batch {
		hi := lo + batch
		if hi > n {
			hi = n
		}
		queue = append(queue, rng{lo, hi})
	}
	parent := vk.NewReport(property, phase, "E2-brokermc")
	out := os.Getenv("VERIF_OUT")
	var wg sync.WaitGroup
	crashes := 0
	for k := 0; k < workers; k++ {
		wg.Add(1)
		go func(k int) {
			defer wg.Done()
			for {
				mu.Lock()
				if len(queue) == 0 || time.Now().After(deadline) {
					if len(queue) > 0 {
						parent.Cap("deadline")
					}
					mu.Unlock()
					return
				}
				r := queue[0]
				queue = queue[1:]
				mu.Unlock()
				prog := filepath.Join(out, fmt.Sprintf("progress-%s-%d", strings.ReplaceAll(phase, "/", "_"), k))
				os.Remove(prog)
				cmd := exec.Command(os.Args[0], "-test.run", "^"+testName+"$", "-test.timeout", "0")
				cmd.Env = append(os.Environ(), fmt.Sprintf("VERIF_RANGE=%d:%d", r.lo, r.hi), fmt.Sprintf("VERIF_SHARD=%d/%d", r.lo, n),
					"VERIF_PROGRESS="+prog, fmt.Sprintf("VERIF_DEADLINE_UNIX=%d", deadline.Unix()), "GOMAXPROCS=2")
				var buf bytes.Buffer
				cmd.Stdout = &buf
				cmd.Stderr = &buf
				if err := cmd.Start(); err != nil {
					parent.HarnessError("cannot start worker: %v", err)
					return
				}
				// watchdog: a path that makes no progress for stallLimit of real time is a hang (a goroutine
				// spinning or the process thrashing): dump the goroutines and move on after that path
				done := make(chan struct{})
				hung := false
				go func() {
					last, lastChange := "", time.Now()
					for {
						select {
						case <-done:
							return
						case <-time.After(2 * time.Second):
						}
						b, _ := os.ReadFile(prog)
						if string(b) != last {
							last, lastChange = string(b), time.Now()
							continue
						}
						if time.Since(lastChange) > stallLimit {
							hung = true
							cmd.Process.Signal(syscall.SIGQUIT)
							time.Sleep(3 * time.Second)
							cmd.Process.Kill()
							return
						}
					}
				}()
				err := cmd.Wait()
				close(done)
				if err == nil {
					continue
				}
				// abnormal exit: which path?
				b, _ := os.ReadFile(prog)
				cur, perr := strconv.Atoi(strings.TrimSpace(string(b)))
				tail := buf.String()
				if i := strings.Index(tail, "panic:"); i >= 0 {
					tail = tail[i:]
				} else if i := strings.Index(tail, "fatal error:"); i >= 0 {
					tail = tail[i:]
				}
				if len(tail) > 1800 {
					tail = tail[:1800]
				}
				if perr != nil || cur < r.lo || cur >= r.hi {
					parent.HarnessError("worker for paths %d..%d died outside a path window: %v\n%s", r.lo, r.hi, err, tail)
					continue
				}
				mu.Lock()
				crashes++
				if cur+1 < r.hi {
					queue = append([]rng{{cur + 1, r.hi}}, queue...)
				}
				mu.Unlock()
				sig := "process-crash:" + crashSite(tail)
				if hung {
					parent.Violate(vk.Violation{Sig: "path-hang:" + crashSite(buf.String()), Msg: fmt.Sprintf("path %d %v made no progress for %v of real time (a goroutine spinning, or the process thrashing); goroutine dump: %s", cur, describe(cur), stallLimit, tail),
						Replay: map[string]any{"path": cur, "desc": describe(cur)}})
					continue
				}
				if strings.Contains(tail, "blocked goroutines remain") || strings.Contains(tail, "deadlock: main bubble") {
					parent.HarnessError("path %d (%v): bubble did not end cleanly: %s", cur, describe(cur), tail)
					continue
				}
				parent.Violate(vk.Violation{Sig: sig, Msg: fmt.Sprintf("the broker process died while running path %d %v: %s", cur, describe(cur), tail),
					Replay: map[string]any{"path": cur, "desc": describe(cur)}})
			}
		}(k)
	}
	wg.Wait()
	merged, err := vk.MergeShardReports(property, phase, "E2-brokermc")
	if err != nil {
		merged = vk.NewReport(property, phase, "E2-brokermc")
		if crashes == 0 {
			merged.HarnessError("%v", err)
		}
	}
	for _, v := range parent.Violations {
		merged.Violate(v)
	}
	merged.HarnessErrors = append(merged.HarnessErrors, parent.HarnessErrors...)
	for _, c := range parent.CapsHit {
		merged.Cap(c)
	}
	merged.Extra["worker_crashes"] = crashes
	merged.Bounds["paths_total"] = n
	if finish != nil {
		finish(merged)
	}
	if err := merged.Write(); err != nil {
		t.Fatal(err)
	}
}

func runChild(t *testing.T, property, phase, r string, run PathFunc) {
	parts := strings.Split(r, ":")
	lo, _ := strconv.Atoi(parts[0])
	hi, _ := strconv.Atoi(parts[1])
	rep := vk.NewReport(property, phase, "E2-brokermc")
	prog := os.Getenv("VERIF_PROGRESS")
	dl, _ := strconv.ParseInt(os.Getenv("VERIF_DEADLINE_UNIX"), 10, 64)
	for i := lo; i < hi; i++ {
		if dl > 0 && time.Now().Unix() > dl {
			rep.Cap("deadline")
			break
		}
		os.WriteFile(prog, []byte(strconv.Itoa(i)), 0o644)
		run(t, i, rep)
		rep.Paths++
		rep.Evaluations++
	}
	os.WriteFile(prog, []byte("-1"), 0o644)
	childStates.flush(phase)
	if err := rep.Write(); err != nil {
		t.Fatal(err)
	}
}

const stallLimit = 75 * time.Second

// crashSite names the first frame of the trace that belongs to the broker or its codec library.
func crashSite(trace string) string {
	for _, line := range strings.Split(trace, "\n") {
		line = strings.TrimSpace(line)
		if (strings.HasPrefix(line, "github.com/vx-labs/") || strings.HasPrefix(line, "github.com/zond/")) && strings.Contains(line, "(") {
			if i := strings.Index(line, "("); i > 0 {
				line = line[:i]
			}
			return strings.TrimPrefix(line, "github.com/vx-labs/")
		}
	}
	return "unknown"
}

// childStates collects world digests of this process for exact distinct-state counts across children.
type stateSets struct {
	states, nontrivial *vk.Set
}

var childStates = &stateSets{states: vk.NewSet(), nontrivial: vk.NewSet()}

func (s *stateSets) flush(phase string) {
	vk.WriteHashes("states", phase, s.states)
	vk.WriteHashes("nontrivial", phase, s.nontrivial)
}

// Observe records the canonical world observation after an event (states count).
func Observe(w *World, rep *vk.Report) {
	childStates.states.AddString(w.Digest())
	rep.Transitions++
}

// MarkNontrivial records a digest of a path in which the property's mechanism was exercised.
func MarkNontrivial(key string) { childStates.nontrivial.AddString(key) }

func sortStrings(s []string) { sort.Strings(s) }
