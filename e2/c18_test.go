package e2

import (
	"fmt"
	"strings"
	"testing"
	"time"

	"github.com/vx-labs/mqtt-protocol/packet"

	"verif/internal/vk"
)

// C18: no client input crashes the broker or stalls other clients. Streams are generated
// exhaustively from a bounded grammar: one valid template per packet shape x structure-aware
// mutations x 3 connection contexts, plus all ordered pairs of valid packets after CONNECT.

type tmpl struct {
	name  string
	first byte
	body  []byte
	lps   []int // offsets (in body) of 2-byte length prefixes
	idOff int   // offset of the packet identifier, -1 if none
}

func lp(s string) []byte { return append([]byte{byte(len(s) >> 8), byte(len(s))}, s...) }

func encodeRemLen(n int) []byte {
	var out []byte
	for {
		d := byte(n % 128)
		n /= 128
		if n > 0 {
			d |= 0x80
		}
		out = append(out, d)
		if n == 0 {
			return out
		}
	}
}

func (t tmpl) bytes() []byte {
	return append(append([]byte{t.first}, encodeRemLen(len(t.body))...), t.body...)
}

func c18templates() []tmpl {
	cat := func(parts ...[]byte) []byte {
		var out []byte
		for _, p := range parts {
			out = append(out, p...)
		}
		return out
	}
	connect := func(name string, flags byte, extra ...string) tmpl {
		body := cat(lp("MQTT"), []byte{4, flags, 0, 30}, lp("hostile"))
		lps := []int{0, 10}
		for _, e := range extra {
			lps = append(lps, len(body))
			body = append(body, lp(e)...)
		}
		return tmpl{name, 0x10, body, lps, -1}
	}
	ts := []tmpl{
		connect("CONNECT", 0x02),
		connect("CONNECT+will", 0x02|0x04|0x08, "will/t", "bye"),
		connect("CONNECT+user", 0x02|0x80|0x40, "user", "secret"),
		{"PUBLISH-q0", 0x30, cat(lp("h/t"), []byte("data")), []int{0}, -1},
		{"PUBLISH-q1", 0x32, cat(lp("h/t"), []byte{0, 5}, []byte("data")), []int{0}, 5},
		{"PUBLISH-q2-retain", 0x35, cat(lp("h/t"), []byte{0, 6}, []byte("data")), []int{0}, 5},
		{"PUBACK", 0x40, []byte{0, 5}, nil, 0},
		{"PUBREC", 0x50, []byte{0, 5}, nil, 0},
		{"PUBREL", 0x62, []byte{0, 6}, nil, 0},
		{"PUBCOMP", 0x70, []byte{0, 5}, nil, 0},
		{"SUBSCRIBE-1", 0x82, cat([]byte{0, 7}, lp("h/#"), []byte{1}), []int{2}, 0},
		{"SUBSCRIBE-2", 0x82, cat([]byte{0, 8}, lp("h/a"), []byte{0}, lp("h/+"), []byte{2}), []int{2, 8}, 0},
		{"UNSUBSCRIBE-1", 0xa2, cat([]byte{0, 9}, lp("h/#")), []int{2}, 0},
		{"UNSUBSCRIBE-2", 0xa2, cat([]byte{0, 10}, lp("h/a"), lp("h/+")), []int{2, 7}, 0},
		// the same on the filter another client (the witness) holds: what one client does to its own subscriptions, held
		// or not, is no business of anybody else's
		{"UNSUBSCRIBE-others-filter", 0xa2, cat([]byte{0, 11}, lp("wit/#")), []int{2}, 0},
		{"SUBSCRIBE-others-filter", 0x82, cat([]byte{0, 12}, lp("wit/#"), []byte{1}), []int{2}, 0},
		{"PINGREQ", 0xc0, nil, nil, -1},
		{"DISCONNECT", 0xe0, nil, nil, -1},
		{"CONNACK", 0x20, []byte{0, 0}, nil, -1},
		{"SUBACK", 0x90, []byte{0, 7, 1}, nil, 0},
		{"UNSUBACK", 0xb0, []byte{0, 9}, nil, 0},
		{"PINGRESP", 0xd0, nil, nil, -1},
	}
	return ts
}

type c18stream struct {
	Name    string `json:"mutation"`
	Context string `json:"context"` // first, after-connect, after-subscribe
	Bytes   []byte `json:"bytes"`
}

func c18mutations() []c18stream {
	var out []c18stream
	add := func(name string, b []byte) { out = append(out, c18stream{Name: name, Bytes: b}) }
	for _, t := range c18templates() {
		full := t.bytes()
		add(t.name+"/valid", full)
		for cut := 1; cut < len(full); cut++ {
			add(fmt.Sprintf("%s/truncated@%d", t.name, cut), full[:cut])
		}
		for fb := 0; fb < 256; fb++ {
			if byte(fb) == t.first {
				continue
			}
			m := append([]byte{byte(fb)}, full[1:]...)
			add(fmt.Sprintf("%s/firstbyte=%02x", t.name, fb), m)
		}
		n := len(t.body)
		for _, rl := range [][]byte{encodeRemLen(0), encodeRemLen(1), encodeRemLen(max0(n - 1)), encodeRemLen(n + 1), encodeRemLen(127), encodeRemLen(128), encodeRemLen(16383), encodeRemLen(1<<28 - 1),
			{0xff, 0xff, 0xff, 0xff, 0x7f}, {0xff, 0xff, 0xff, 0xff}} {
			m := append(append([]byte{t.first}, rl...), t.body...)
			add(fmt.Sprintf("%s/remlen=%x", t.name, rl), m)
			// and the body cut/padded to the announced length when that is small
			if v := decodeRemLen(rl); v >= 0 && v <= 200 {
				body := append([]byte{}, t.body...)
				for len(body) < v {
					body = append(body, 0)
				}
				add(fmt.Sprintf("%s/remlen=%x+exact-body", t.name, rl), append(append([]byte{t.first}, rl...), body[:v]...))
			}
		}
		for _, off := range t.lps {
			true_ := int(t.body[off])<<8 | int(t.body[off+1])
			for _, v := range []int{0, true_ - 1, true_ + 1, 0xffff} {
				if v < 0 {
					continue
				}
				b := append([]byte{}, t.body...)
				b[off], b[off+1] = byte(v>>8), byte(v)
				add(fmt.Sprintf("%s/lenprefix@%d=%d", t.name, off, v), append(append([]byte{t.first}, encodeRemLen(len(b))...), b...))
			}
		}
		if t.idOff >= 0 {
			b := append([]byte{}, t.body...)
			b[t.idOff], b[t.idOff+1] = 0, 0
			add(t.name+"/identifier=0", append(append([]byte{t.first}, encodeRemLen(len(b))...), b...))
			b[t.idOff], b[t.idOff+1] = 0xff, 0xff
			add(t.name+"/identifier=65535", append(append([]byte{t.first}, encodeRemLen(len(b))...), b...))
		}
	}
	// QoS 2 publishes that are never released, under the identifiers the broker itself is about to use for its next
	// deliveries to this client (client and broker number their packets independently)
	for id := byte(1); id <= 3; id++ {
		add(fmt.Sprintf("PUBLISH-q2/identifier=%d-never-released", id), tmpl{"", 0x34, append(append(lp("h/t"), 0, id), []byte("data")...), nil, -1}.bytes())
	}
	add("PUBLISH-q2/identifiers-1-to-8-never-released", func() []byte {
		var b []byte
		for id := byte(1); id <= 8; id++ {
			b = append(b, tmpl{"", 0x34, append(append(lp("h/t"), 0, id), []byte("data")...), nil, -1}.bytes()...)
		}
		return b
	}())
	// QoS 3, empty topic lists, requested QoS 3, will QoS 3
	add("PUBLISH/qos3", tmpl{"", 0x36, append(lp("h/t"), 0, 5, 'x'), nil, -1}.bytes())
	add("SUBSCRIBE/empty-topic-list", tmpl{"", 0x82, []byte{0, 7}, nil, -1}.bytes())
	add("UNSUBSCRIBE/empty-topic-list", tmpl{"", 0xa2, []byte{0, 9}, nil, -1}.bytes())
	add("SUBSCRIBE/requested-qos3", tmpl{"", 0x82, append(append([]byte{0, 7}, lp("h/#")...), 3), nil, -1}.bytes())
	add("SUBSCRIBE/missing-qos-byte", tmpl{"", 0x82, append([]byte{0, 7}, lp("h/#")...), nil, -1}.bytes())
	add("SUBSCRIBE/empty-filter", tmpl{"", 0x82, append(append([]byte{0, 7}, lp("")...), 0), nil, -1}.bytes())
	add("PUBLISH/empty-topic", tmpl{"", 0x30, append(lp(""), 'x'), nil, -1}.bytes())
	add("PUBLISH/wildcard-topic", tmpl{"", 0x30, append(lp("#"), 'x'), nil, -1}.bytes())
	add("CONNECT/will-qos3", tmpl{"", 0x10, append(append(append(append(lp("MQTT"), 4, 0x02|0x04|0x18, 0, 30), lp("hostile")...), lp("w")...), lp("m")...), nil, -1}.bytes())
	add("CONNECT/bad-protocol-name", tmpl{"", 0x10, append(append(lp("MQTX"), 4, 2, 0, 30), lp("hostile")...), nil, -1}.bytes())
	add("CONNECT/protocol-level-9", tmpl{"", 0x10, append(append(lp("MQTT"), 9, 2, 0, 30), lp("hostile")...), nil, -1}.bytes())
	add("CONNECT/keepalive-0", tmpl{"", 0x10, append(append(lp("MQTT"), 4, 2, 0, 0), lp("hostile")...), nil, -1}.bytes())
	// strings that are not valid UTF-8 (the replicated state is protobuf: such strings cannot be marshalled)
	add("CONNECT/client-id-invalid-utf8", tmpl{"", 0x10, append(append(lp("MQTT"), 4, 2, 0, 30), lp("bad\xff\xfeid")...), nil, -1}.bytes())
	add("CONNECT/username-invalid-utf8", tmpl{"", 0x10, append(append(append(append(lp("MQTT"), 4, 0x02|0x80|0x40, 0, 30), lp("hostile")...), lp("u\xff")...), lp("p")...), nil, -1}.bytes())
	add("CONNECT/will-topic-invalid-utf8", tmpl{"", 0x10, append(append(append(append(lp("MQTT"), 4, 0x02|0x04, 0, 30), lp("hostile")...), lp("w\xc3\x28")...), lp("m")...), nil, -1}.bytes())
	add("SUBSCRIBE/filter-invalid-utf8", tmpl{"", 0x82, append(append([]byte{0, 7}, lp("h/\xff")...), 0), nil, -1}.bytes())
	add("PUBLISH/topic-invalid-utf8", tmpl{"", 0x31, append(lp("h/\xfe\xff"), 'x'), nil, -1}.bytes())
	// topic names that are illegal in a PUBLISH but match the sender's own subscription (h/#), so they reach the log
	add("PUBLISH/topic-with-multi-level-wildcard", tmpl{"", 0x30, append(lp("h/#"), 'x'), nil, -1}.bytes())
	add("PUBLISH/topic-with-single-level-wildcard", tmpl{"", 0x32, append(append(lp("h/+"), 0, 9), 'x'), nil, -1}.bytes())
	add("PUBLISH/topic-with-nul", tmpl{"", 0x30, append(lp("h/\x00"), 'x'), nil, -1}.bytes())
	add("PUBLISH/retained-topic-with-wildcard", tmpl{"", 0x31, append(lp("h/+/#"), 'x'), nil, -1}.bytes())
	add("CONNECT/empty-client-id", tmpl{"", 0x10, append(append(lp("MQTT"), 4, 2, 0, 30), lp("")...), nil, -1}.bytes())
	return out
}

func max0(n int) int {
	if n < 0 {
		return 0
	}
	return n
}
func decodeRemLen(b []byte) int {
	v, m := 0, 1
	for i, x := range b {
		v += int(x&0x7f) * m
		m *= 128
		if x&0x80 == 0 {
			if i == len(b)-1 {
				return v
			}
			return -1
		}
	}
	return -1
}

func c18streams() []c18stream {
	var out []c18stream
	muts := c18mutations()
	for _, ctx := range []string{"first", "after-connect", "after-subscribe"} {
		for _, m := range muts {
			out = append(out, c18stream{m.Name, ctx, m.Bytes})
		}
	}
	// all ordered pairs of valid packets after CONNECT
	ts := c18templates()
	for _, a := range ts {
		for _, b := range ts {
			out = append(out, c18stream{a.name + " ; " + b.name, "after-connect", append(append([]byte{}, a.bytes()...), b.bytes()...)})
		}
	}
	if vk.Thorough() {
		// pairs of mutations from a representative subset (every 23rd mutation), after CONNECT+SUBSCRIBE
		var rep []c18stream
		for i, m := range muts {
			if i%23 == 0 {
				rep = append(rep, m)
			}
		}
		for _, a := range rep {
			for _, b := range rep {
				out = append(out, c18stream{a.Name + " ; " + b.Name, "after-subscribe", append(append([]byte{}, a.Bytes...), b.Bytes...)})
			}
		}
	}
	return out
}

func TestC18HostileInput(t *testing.T) {
	streams := c18streams()
	RunPaths(t, "C18", "C18/hostile-streams", "TestC18HostileInput", len(streams), vk.Pick(9*time.Minute, 40*time.Minute),
		func(t *testing.T, i int, rep *vk.Report) {
			s := streams[i]
			RunBubble(t, fmt.Sprintf("p%d", i), func(t *testing.T) {
				w := NewWorld(t, 1)
				defer w.Close()
				viol := func(sig, format string, a ...any) {
					rep.Violate(vk.Violation{Sig: sig, Msg: fmt.Sprintf("stream %q (%s, %d bytes %x): ", s.Name, s.Context, len(s.Bytes), clip(s.Bytes, 40)) + fmt.Sprintf(format, a...), Replay: map[string]any{"mutation": s.Name, "context": s.Context, "hex": fmt.Sprintf("%x", clip(s.Bytes, 4096))}})
				}
				wsub := w.NewClient("witness-sub", 1, AckAll)
				wpub := w.NewClient("witness-pub", 1, AckAll)
				if wsub.Connect(ConnectOpts{ClientID: "wsub", KeepAlive: 600}) != 0 || wpub.Connect(ConnectOpts{ClientID: "wpub", KeepAlive: 600}) != 0 {
					rep.HarnessError("witness connect failed")
					return
				}
				wsub.Subscribe(1, 1, "wit/#")
				w.Step()
				hp := AckAll
				if strings.Contains(s.Name, "never-released") {
					hp = AckNone // the stream's point is that the client does not go on with the handshakes it started
				}
				h := w.NewClient("hostile", 1, hp)
				switch s.Context {
				case "after-connect":
					h.Connect(ConnectOpts{ClientID: "hostile", KeepAlive: 30})
				case "after-subscribe":
					h.Connect(ConnectOpts{ClientID: "hostile", KeepAlive: 30})
					h.Subscribe(1, 1, "h/#")
					w.Step()
				}
				h.SendRaw(s.Bytes)
				w.Step()
				Observe(w, rep)
				// whatever the stream registered (a subscription with an odd QoS, an odd filter) is exercised by a
				// message on the hostile client's own topic space before it goes away
				wpub.Publish("h/t", "probe", 1, false, 76)
				wpub.Publish("h/a", "probe", 0, false, 0)
				w.Idle(time.Second)
				hostileClosed := h.BrokerClosed()
				h.Drop()
				w.Step()
				Observe(w, rep)
				// witness round trip
				wpub.Publish("wit/x", "still-alive", 1, false, 77)
				w.Step()
				w.Idle(10 * time.Second)
				if wsub.BrokerClosed() || wpub.BrokerClosed() {
					viol("c18-bystander-disconnected", "a witness connection was closed by the broker")
					return
				}
				if !wpub.Has("PUBACK(77)") {
					viol("c18-witness-publish-not-acknowledged", "after the hostile stream the witness publisher got no PUBACK within 10 s")
					return
				}
				got := false
				for _, pk := range wsub.Publishes() {
					if string(pk.Topic) == "wit/x" && string(pk.Payload) == "still-alive" {
						got = true
					}
				}
				if !got {
					viol("c18-witness-not-delivered", "after the hostile stream the witness subscriber did not receive the witness publish within 10 s; inbox %s", trunc(wsub.InboxDigest(), 200))
					return
				}
				if hostileClosed {
					MarkNontrivial(s.Name + "/" + s.Context)
					rep.Nontrivial++
				}
				if i%2003 == 0 {
					rep.Sample(map[string]any{"mutation": s.Name, "context": s.Context, "hex": fmt.Sprintf("%x", clip(s.Bytes, 64))})
				}
			})
		},
		func(i int) any {
			return map[string]any{"mutation": streams[i].Name, "context": streams[i].Context, "hex": fmt.Sprintf("%x", clip(streams[i].Bytes, 64))}
		},
		func(rep *vk.Report) {
			rep.Rule = "streams = 20 valid packet templates x {truncation at every offset, all 255 other first bytes, 10 remaining-length encodings (+ exact-length bodies), every inner length prefix in {0, true-1, true+1, 0xffff}, identifier 0 / 65535} + protocol-level oddities (QoS 3, empty topic lists, missing QoS byte, bad protocol name/level, ...) x context {first packet, after CONNECT, after CONNECT+SUBSCRIBE} + all ordered pairs of valid packets after CONNECT (thorough: pairs of every 23rd mutation); non-trivial = streams after which the broker closed the hostile connection"
			rep.Bounds["templates"] = len(c18templates())
			rep.Bounds["mutations"] = len(c18mutations())
			rep.Bounds["witness_horizon"] = "10 s virtual"
			rep.Floor("hostile_connection_closed", 100, rep.Nontrivial)
		})
}

func clip(b []byte, n int) []byte {
	if len(b) > n {
		return b[:n]
	}
	return b
}

// TestC18SplitPackets: a slow (not hostile) sender whose packet arrives in two pieces while many other
// clients connect in between: every connection has its own framing state, the packet must arrive intact.
func TestC18SplitPackets(t *testing.T) {
	type sp struct {
		Size    int `json:"payload_size"`
		SplitAt int `json:"split_after_bytes"`
		Others  int `json:"connections_in_between"`
	}
	var paths []sp
	for _, size := range []int{200, 20000} {
		for _, at := range []int{1, 2, 3, 10} {
			for _, o := range []int{1, 25, 45} {
				paths = append(paths, sp{size, at, o})
			}
		}
	}
	RunPaths(t, "C18", "C18/split-packets", "TestC18SplitPackets", len(paths), vk.Pick(4*time.Minute, 10*time.Minute),
		func(t *testing.T, i int, rep *vk.Report) {
			p := paths[i]
			RunBubble(t, fmt.Sprintf("p%d", i), func(t *testing.T) {
				w := NewWorld(t, 1)
				defer w.Close()
				sub := w.NewClient("sub", 1, AckAll)
				sub.Connect(ConnectOpts{ClientID: "sub", KeepAlive: 600})
				sub.Subscribe(1, 0, "big/#")
				slow := w.NewClient("slow", 1, AckAll)
				slow.Connect(ConnectOpts{ClientID: "slow", KeepAlive: 600})
				w.Step()
				payload := make([]byte, p.Size)
				for k := range payload {
					payload[k] = byte('a' + k%26)
				}
				pkt := tmpl{"", 0x30, append(lp("big/t"), payload...), nil, -1}.bytes()
				slow.SendRaw(pkt[:p.SplitAt])
				w.Step()
				for k := 0; k < p.Others; k++ {
					o := w.NewClient(fmt.Sprintf("other%d", k), 1, AckAll)
					if o.Connect(ConnectOpts{ClientID: fmt.Sprintf("other%d", k), KeepAlive: 600}) != 0 {
						rep.Violate(vk.Violation{Sig: "c18-bystander-connect-failed", Msg: fmt.Sprintf("%+v: connection %d could not connect while another client's packet was half sent", p, k), Replay: p})
						return
					}
				}
				w.Step()
				slow.SendRaw(pkt[p.SplitAt:])
				w.Step()
				w.Idle(2 * time.Second)
				Observe(w, rep)
				got := sub.Publishes()
				if len(got) != 1 || string(got[0].Topic) != "big/t" || string(got[0].Payload) != string(payload) {
					d := "nothing"
					if len(got) > 0 {
						d = fmt.Sprintf("%d packet(s), first: topic %q, %d payload bytes", len(got), got[0].Topic, len(got[0].Payload))
					}
					rep.Violate(vk.Violation{Sig: "c18-packet-corrupted-by-other-connections", Msg: fmt.Sprintf("%+v: the subscriber should have received the %d-byte publish intact, it received %s (slow sender's connection closed: %v)", p, p.Size, d, slow.BrokerClosed()), Replay: p})
					return
				}
				MarkNontrivial(fmt.Sprintf("%+v", p))
				rep.Nontrivial++
				rep.Sample(p)
			})
		},
		func(i int) any { return paths[i] },
		func(rep *vk.Report) {
			rep.Rule = "a valid PUBLISH of 200 / 20000 payload bytes (2- and 3-byte remaining length) is sent in two pieces split after 1, 2, 3 or 10 bytes while 1, 25 or 45 other clients connect in between (more than the 20 connection set-up workers); the subscriber must receive it intact"
			rep.Floor("paths", 10, rep.Nontrivial)
		})
}

// TestC18WorkerStarvation: one failed publish is survivable by construction; here more clients than the broker has publish
// workers (20) each send a PUBLISH whose announced body (21 MB, more than the message log takes) is cut off by closing the
// connection. However each of them ends, the witnesses must still be able to publish and receive afterwards.
func TestC18WorkerStarvation(t *testing.T) {
	type sp struct {
		Clients int   `json:"hostile_clients"`
		Qos     int32 `json:"publish_qos"`
		Whole   bool  `json:"whole_body_sent"`
		// Announced: remaining length announced by each hostile PUBLISH (0 = 21 MB)
		Announced int `json:"announced_remaining_length,omitempty"`
	}
	paths := []sp{{22, 0, false, 0}, {22, 1, false, 0}, {45, 1, false, 0}}
	if vk.Thorough() {
		paths = append(paths, sp{22, 2, false, 0}, sp{22, 1, true, 0})
	}
	// sizes around what the message log accepts at most (20,000,000 bytes per stored entry; the stored form of a publish is a
	// few bytes longer than its MQTT form): every length from 40 below the limit to 8 above it in steps of 4 (thorough: 1)
	for d := -40; d <= 8; d += vk.Pick(4, 1) {
		paths = append(paths, sp{2, 1, false, 20_000_000 + d})
	}
	RunPaths(t, "C18", "C18/publish-worker-starvation", "TestC18WorkerStarvation", len(paths), vk.Pick(5*time.Minute, 15*time.Minute),
		func(t *testing.T, i int, rep *vk.Report) {
			p := paths[i]
			RunBubble(t, fmt.Sprintf("p%d", i), func(t *testing.T) {
				w := NewWorld(t, 1)
				defer w.Close()
				viol := func(sig, format string, a ...any) {
					rep.Violate(vk.Violation{Sig: sig, Msg: fmt.Sprintf("%+v: ", p) + fmt.Sprintf(format, a...), Replay: p})
				}
				wsub := w.NewClient("witness-sub", 1, AckAll)
				wpub := w.NewClient("witness-pub", 1, AckAll)
				if wsub.Connect(ConnectOpts{ClientID: "wsub", KeepAlive: 600}) != 0 || wpub.Connect(ConnectOpts{ClientID: "wpub", KeepAlive: 600}) != 0 {
					rep.HarnessError("witness connect failed")
					return
				}
				wsub.Subscribe(1, 1, "wit/#")
				wsub.Subscribe(2, 0, "big/#") // the oversized publishes have a destination: they reach the log, which refuses them
				w.Step()
				announced := 21 << 20
				if p.Announced > 0 {
					announced = p.Announced
				}
				for k := 0; k < p.Clients; k++ {
					h := w.NewClient(fmt.Sprintf("hostile%d", k), 1, AckNone)
					if h.Connect(ConnectOpts{ClientID: fmt.Sprintf("hostile%d", k), KeepAlive: 30}) != 0 {
						viol("c18-bystander-connect-failed", "connection %d could not connect any more", k)
						return
					}
					body := lp("big/x")
					if p.Qos > 0 {
						body = append(body, 0, byte(k+1))
					}
					first := byte(0x30 | p.Qos<<1)
					pkt := append(append([]byte{first}, encodeRemLen(announced)...), body...)
					if p.Whole {
						pkt = append(pkt, make([]byte, announced-len(body))...)
					} else {
						pkt = append(pkt, []byte("only this much of the body ever arrives")...)
					}
					h.SendRaw(pkt)
					w.Step()
					h.Drop()
					w.Step()
				}
				w.Idle(2 * time.Second)
				Observe(w, rep)
				wpub.Publish("wit/x", "still-alive", 1, false, 77)
				w.Step()
				w.Idle(10 * time.Second)
				if wsub.BrokerClosed() || wpub.BrokerClosed() {
					viol("c18-bystander-disconnected", "a witness connection was closed by the broker (publisher closed=%v, subscriber closed=%v)", wpub.BrokerClosed(), wsub.BrokerClosed())
					return
				}
				if !wpub.Has("PUBACK(77)") {
					viol("c18-witness-publish-not-acknowledged", "after %d clients each sent one cut-off oversized PUBLISH the witness publisher got no PUBACK within 10 s", p.Clients)
					return
				}
				got := false
				for _, pk := range wsub.Publishes() {
					if string(pk.Topic) == "wit/x" && string(pk.Payload) == "still-alive" {
						got = true
					}
				}
				if !got {
					viol("c18-witness-not-delivered", "after %d clients each sent one cut-off oversized PUBLISH the witness subscriber did not receive the witness publish within 10 s", p.Clients)
					return
				}
				MarkNontrivial(fmt.Sprint(p))
				rep.Nontrivial++
				rep.Sample(p)
			})
		},
		func(i int) any { return paths[i] },
		func(rep *vk.Report) {
			rep.Rule = "22 or 45 clients (the broker runs 20 publish workers and 20 connection set-up workers) each send one PUBLISH announcing a 21 MB body (above what the message log accepts) on a topic with a subscriber and close the connection after a few body bytes (thorough: also the whole body); afterwards a witness QoS 1 publish must be acknowledged and delivered within 10 s"
			rep.Floor("paths", 3, rep.Nontrivial)
			rep.Bounds["announced_lengths_around_the_log_limit"] = "20,000,000 - 40 .. + 8"
		})
}

// TestC18SilentReader: a client that keeps sending valid packets (CONNECT, SUBSCRIBE, PINGREQ within its keep-alive) but
// never reads what the broker writes to it. Its own connection may suffer; the others must go on being served: a witness
// publish is acknowledged and delivered, and an unacknowledged QoS 1 delivery to another session goes on being
// retransmitted, within the time it takes the broker to give up on the stalled connection (twice the sleeper's
// keep-alive) plus ten seconds.
func TestC18SilentReader(t *testing.T) {
	type sp struct {
		KeepAlive int32 `json:"sleeper_keepalive_s"`
		Feed      int   `json:"messages_to_the_sleeper"`
		Pings     bool  `json:"sleeper_keeps_pinging"`
	}
	var paths []sp
	// (keep-alive 0 on the wire means 30 s to this broker: the codec library substitutes its default)
	for _, k := range []int32{1, 2, 0} {
		for _, f := range []int{1, 3} {
			for _, pg := range []bool{true, false} {
				paths = append(paths, sp{k, f, pg})
			}
		}
	}
	RunPaths(t, "C18", "C18/silent-reader", "TestC18SilentReader", len(paths), vk.Pick(5*time.Minute, 15*time.Minute),
		func(t *testing.T, i int, rep *vk.Report) {
			p := paths[i]
			RunBubble(t, fmt.Sprintf("p%d", i), func(t *testing.T) {
				w := NewWorld(t, 1)
				defer w.Close()
				viol := func(sig, format string, a ...any) {
					rep.Violate(vk.Violation{Sig: sig, Msg: fmt.Sprintf("%+v: ", p) + fmt.Sprintf(format, a...), Replay: p})
				}
				wsub := w.NewClient("witness-sub", 1, AckAll)
				wpub := w.NewClient("witness-pub", 1, AckAll)
				quiet := w.NewClient("unacknowledging-sub", 1, AckNone)
				if wsub.Connect(ConnectOpts{ClientID: "wsub", KeepAlive: 600}) != 0 || wpub.Connect(ConnectOpts{ClientID: "wpub", KeepAlive: 600}) != 0 || quiet.Connect(ConnectOpts{ClientID: "quiet", KeepAlive: 600}) != 0 {
					rep.HarnessError("witness connect failed")
					return
				}
				wsub.Subscribe(1, 1, "wit/#")
				quiet.Subscribe(1, 1, "q/#")
				sleeper := w.NewClient("sleeper", 1, AckNone)
				if sleeper.Connect(ConnectOpts{ClientID: "sleeper", KeepAlive: p.KeepAlive}) != 0 {
					rep.HarnessError("sleeper connect failed")
					return
				}
				sleeper.Subscribe(1, 0, "feed/#")
				w.Step()
				wpub.Publish("q/x", "unacknowledged", 1, false, 70)
				w.Step()
				sleeper.Pause()        // from now on it reads nothing
				defer sleeper.Resume() // (only so that the harness's reader goroutine can end with the bubble)
				for k := 0; k < p.Feed; k++ {
					wpub.Publish(fmt.Sprintf("feed/%d", k), "for-the-sleeper", 0, false, 0)
				}
				horizon := 2*time.Duration(p.KeepAlive)*time.Second + 10*time.Second
				if p.KeepAlive == 0 {
					horizon = 70 * time.Second // 2 x the 30 s the codec substitutes, + 10 s
				}
				copies0 := len(quiet.Publishes())
				wpub.Publish("wit/x", "still-alive", 1, false, 77)
				for spent := time.Duration(0); spent < horizon; spent += 300 * time.Millisecond {
					if p.Pings {
						sleeper.Ping()
					}
					w.Idle(300 * time.Millisecond)
				}
				Observe(w, rep)
				if wsub.BrokerClosed() || wpub.BrokerClosed() || quiet.BrokerClosed() {
					viol("c18-bystander-disconnected", "a bystander's connection was closed by the broker")
					return
				}
				if !wpub.Has("PUBACK(77)") {
					viol("c18-witness-publish-not-acknowledged", "with a subscriber that reads nothing, the witness publisher got no PUBACK within %v", horizon)
					return
				}
				got := false
				for _, pk := range wsub.Publishes() {
					if string(pk.Topic) == "wit/x" {
						got = true
					}
				}
				if !got {
					viol("c18-witness-not-delivered", "with a subscriber that reads nothing, the witness subscriber did not receive the witness publish within %v", horizon)
					return
				}
				if n := len(quiet.Publishes()) - copies0; n < 2 {
					viol("c18-retransmission-to-others-stopped", "with a subscriber that reads nothing, the unacknowledged QoS 1 delivery to another session was sent again only %d time(s) within %v (deadline 3 s)", n, horizon)
					return
				}
				MarkNontrivial(fmt.Sprint(p))
				rep.Nontrivial++
				rep.Sample(p)
			})
		},
		func(i int) any { return paths[i] },
		func(rep *vk.Report) {
			rep.Rule = "a subscriber with keep-alive 1 / 2 / 0 (= 30) s that reads nothing after its SUBSCRIBE (with and without PINGREQs every 300 ms) while 1 or 3 messages are published to it; within 2 x keep-alive + 10 s a witness QoS 1 publish is acknowledged and delivered and an unacknowledged QoS 1 delivery to another session is retransmitted at least twice"
			rep.Floor("paths", 6, rep.Nontrivial)
		})
}

// TestC18SlowConnect: clients that open a connection and send their CONNECT a byte at a time, never finishing it. The
// broker has 20 connection set-up workers and gives a connection 3 s to present its CONNECT; however the bytes are spaced,
// a client arriving later must still be admitted: 20 or 25 such connections, one byte every 0.5 / 1.5 / 2.5 s, a witness
// arriving 3.5 s or 8 s after them that must hold its CONNACK within 5 s.
func TestC18SlowConnect(t *testing.T) {
	type lp2 struct {
		Clients  int `json:"trickling_connections"`
		GapMs    int `json:"ms_between_bytes"`
		WitnessS int `json:"witness_arrives_after_tenths_of_s"`
	}
	var paths []lp2
	for _, n := range []int{20, 25} {
		for _, gap := range []int{500, 1500, 2500} {
			for _, ws := range []int{35, 80} {
				paths = append(paths, lp2{n, gap, ws})
			}
		}
	}
	RunPaths(t, "C18", "C18/slow-connect", "TestC18SlowConnect", len(paths), vk.Pick(4*time.Minute, 10*time.Minute),
		func(t *testing.T, i int, rep *vk.Report) {
			p := paths[i]
			RunBubble(t, fmt.Sprintf("p%d", i), func(t *testing.T) {
				w := NewWorld(t, 1)
				defer w.Close()
				connect := EncodeConnect(&packet.Connect{Header: &packet.Header{}, ClientId: []byte("a-rather-long-client-identifier-0123456789"), KeepaliveTimer: 60, Clean: true})
				var tr []*Client
				for k := 0; k < p.Clients; k++ {
					c := w.NewClient(fmt.Sprintf("trickle%d", k), 1, AckNone)
					tr = append(tr, c)
				}
				start := time.Now()
				stop := make(chan struct{})
				done := make(chan struct{})
				go func() {
					defer close(done)
					for pos := 0; pos < len(connect)-1; pos++ { // the last byte never comes
						for _, c := range tr {
							if !c.BrokerClosed() {
								c.SendRaw(connect[pos : pos+1])
							}
						}
						select {
						case <-stop:
							return
						case <-time.After(time.Duration(p.GapMs) * time.Millisecond):
						}
					}
				}()
				w.Idle(time.Duration(p.WitnessS) * 100 * time.Millisecond)
				wit := w.NewClient("witness", 1, AckAll)
				var rc int32 = -1
				got := make(chan struct{})
				go func() {
					defer close(got)
					if err := wit.SendRaw(EncodeConnect(&packet.Connect{Header: &packet.Header{}, ClientId: []byte("witness"), KeepaliveTimer: 600, Clean: true})); err != nil {
						return
					}
				}()
				w.Idle(5 * time.Second)
				for _, r := range wit.Received() {
					if ca, ok := r.Pkt.(*packet.ConnAck); ok {
						rc = ca.ReturnCode
					}
				}
				close(stop)
				for _, c := range tr {
					c.Drop()
				}
				w.Idle(time.Duration(p.GapMs)*time.Millisecond + time.Second)
				<-done
				<-got
				if rc != 0 {
					rep.Violate(vk.Violation{Sig: "c18-connect-starved-by-slow-connects", Msg: fmt.Sprintf("%+v: a client arriving %.1f s after %d connections that send their CONNECT one byte every %d ms had no CONNACK 5 s later (code %d, -1 = none; witness closed=%v)", p, float64(p.WitnessS)/10, p.Clients, p.GapMs, rc, wit.BrokerClosed()), Replay: p})
					return
				}
				_ = start
				Observe(w, rep)
				MarkNontrivial(fmt.Sprintf("%+v", p))
				rep.Nontrivial++
				rep.Sample(p)
			})
		},
		func(i int) any { return paths[i] },
		func(rep *vk.Report) {
			rep.Rule = "20 or 25 connections (the broker runs 20 connection set-up workers) send a CONNECT one byte every 0.5 / 1.5 / 2.5 s and never finish it; a client arriving 3.5 s or 8 s later sends a complete CONNECT and must hold CONNACK 0 within 5 s"
			rep.Floor("paths", int64(len(paths)), rep.Nontrivial)
		})
}
