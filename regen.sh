#!/bin/sh
# Regenerates every evidence file with the quick tier on the current (clean) /repo tree; run before committing evidence.
cd "$(dirname "$0")"
if [ -n "$(git -C /repo status --porcelain)" ]; then echo "/repo is not clean"; exit 2; fi
rc=0
for c in C01 C02 C03 C04 C05 C06 C07 C08 C09 C10 C11 C12 C13 C14 C15 C16 C17 C18 C19 C20; do
  VERIF_SEED=1 ./check $c quick 2>&1 | grep -v "^overlay" | tail -1 | cut -c1-220 || rc=1
done
rm -rf replays
./validate.py
exit $rc
