#!/usr/bin/env python3
"""seedeval.py <seed-dir> [--tier quick|thorough] [--checks C04,C20]

Confirms a seeded defect in a scratch worktree (outside /repo and /verif), archives it under /verif/seeded/<name>/,
then applies it to /repo, runs the registered check(s), and reverts /repo straight afterwards.
  seed-dir: directory holding patch.diff, meta.json and the demonstration (demo_test.go or demo/main.go)
"""
import json, os, re, shutil, subprocess, sys, time

ENV = dict(os.environ, GOFLAGS="-mod=mod", GOPROXY="off", GOSUMDB="off", GOTOOLCHAIN="local")


def sh(cmd, cwd, timeout=1800):
    r = subprocess.run(cmd, cwd=cwd, env=ENV, shell=isinstance(cmd, str), stdout=subprocess.PIPE, stderr=subprocess.STDOUT, text=True, timeout=timeout)
    return r.returncode, r.stdout


def main():
    seed = os.path.abspath(sys.argv[1])
    tier = "quick"
    if "--tier" in sys.argv:
        tier = sys.argv[sys.argv.index("--tier") + 1]
    meta = json.load(open(os.path.join(seed, "meta.json")))
    prop = meta["property"]
    checks = [prop]
    if "--checks" in sys.argv:
        checks = sys.argv[sys.argv.index("--checks") + 1].split(",")
    name = "%s-%s" % (prop, os.path.basename(seed))
    wt = "/tmp/seedwt-%s" % name
    subprocess.run(["git", "-C", "/repo", "worktree", "remove", "--force", wt], capture_output=True)
    shutil.rmtree(wt, ignore_errors=True)
    sh(["git", "-C", "/repo", "worktree", "add", "-q", "--detach", wt, "HEAD"], "/repo")
    result = {"seed": name, "property": prop}
    try:
        patch = os.path.join(seed, "patch.diff")
        # demonstration
        demo_src = None
        for cand in ("demo_test.go", "demo/main.go", "demo.go"):
            if os.path.exists(os.path.join(seed, cand)):
                demo_src = os.path.join(seed, cand)
                break
        placement = meta.get("demo_placement", "").strip("./") or "."
        is_test = demo_src and demo_src.endswith("_test.go")

        def run_demo():
            if is_test:
                dst = os.path.join(wt, placement, "zz_seed_demo_test.go")
                shutil.copy(demo_src, dst)
                tests = re.findall(r"^func (Test\w+)\(", open(demo_src).read(), flags=re.M)
                race = ["-race"] if "-race" in meta.get("demo_cmd", "") else []  # a demonstration of a data race needs the detector
                code, out = sh(["go", "test", "-vet=off", "-count=1"] + race + ["-run", "^(%s)$" % "|".join(tests), "./" + placement + "/"], wt, 900)
                os.remove(dst)
                return code, out
            d = os.path.join(wt, "zz_seed_demo")
            os.makedirs(d, exist_ok=True)
            shutil.copy(demo_src, os.path.join(d, "main.go"))
            code, out = sh(["go", "run", "./zz_seed_demo"], wt, 900)
            shutil.rmtree(d)
            return code, out

        code, out = run_demo()
        result["demo_passes_without_change"] = code == 0
        code, out = sh(["git", "apply", patch], wt)
        result["patch_applies"] = code == 0
        if code != 0:
            result["error"] = out[-500:]
            return finish(result, seed, name, meta, demo_src)
        code, out = sh("go build ./... && go build -tags verif ./...", wt)
        result["build_ok"] = code == 0
        code, out = sh("go test -vet=off -count=1 ./...", wt, 1500)
        result["existing_tests_pass"] = code == 0
        code, out = run_demo()
        result["demo_fails_with_change"] = code != 0
        result["demo_output_tail"] = out[-600:]
        confirmed = all(result.get(k) for k in ("demo_passes_without_change", "patch_applies", "build_ok", "existing_tests_pass", "demo_fails_with_change"))
        result["confirmed"] = confirmed
        if not confirmed:
            return finish(result, seed, name, meta, demo_src)
        # run the registered checks against /repo with the change applied, then undo it straight afterwards
        st = subprocess.run(["git", "-C", "/repo", "status", "--porcelain"], capture_output=True, text=True).stdout.strip()
        if st:
            result["error"] = "/repo working tree is not clean: " + st
            return finish(result, seed, name, meta, demo_src)
        runs = {}
        ev_backup = "/tmp/seedeval-evidence-%d" % os.getpid()
        shutil.rmtree(ev_backup, ignore_errors=True)
        shutil.copytree("/verif/evidence", ev_backup)  # evidence written against a mutated /repo must not stay
        try:
            code, out = sh(["git", "-C", "/repo", "apply", patch], "/repo")
            for c in checks:
                t0 = time.time()
                code, out = sh(["./check", c, tier], "/verif", 7200)
                lines = [l for l in out.splitlines() if l.startswith("VIOLATION") or l.startswith("  #")]
                runs[c] = {"tier": tier, "exit": code, "detected": code == 1 and any(l.startswith("VIOLATION") for l in lines), "wall_s": round(time.time() - t0, 1),
                           "first_violation": (lines[1][:400] if len(lines) > 1 else ""), "tail": out[-400:] if code not in (0, 1) else ""}
        finally:
            sh(["git", "-C", "/repo", "checkout", "--", "."], "/repo")
            sh(["git", "-C", "/repo", "clean", "-fd", "-q"], "/repo")
            shutil.rmtree("/verif/replays", ignore_errors=True)
            shutil.rmtree("/verif/evidence", ignore_errors=True)
            shutil.copytree(ev_backup, "/verif/evidence")
            shutil.rmtree(ev_backup, ignore_errors=True)
        result["checks"] = runs
        return finish(result, seed, name, meta, demo_src)
    finally:
        subprocess.run(["git", "-C", "/repo", "worktree", "remove", "--force", wt], capture_output=True)
        shutil.rmtree(wt, ignore_errors=True)


def finish(result, seed, name, meta, demo_src):
    if result.get("confirmed"):
        dst = os.path.join("/verif/seeded", name)
        os.makedirs(dst, exist_ok=True)
        shutil.copy(os.path.join(seed, "patch.diff"), dst)
        if demo_src:
            shutil.copy(demo_src, os.path.join(dst, os.path.basename(demo_src)))
        m = dict(meta)
        m["confirmed_by_harness_author"] = {k: result.get(k) for k in ("demo_passes_without_change", "patch_applies", "build_ok", "existing_tests_pass", "demo_fails_with_change")}
        m["what_was_run"] = "scratch worktree of /repo HEAD: demo on pristine tree; git apply patch.diff; go build ./... (with and without -tags verif); go test -vet=off -count=1 ./...; demo again; then patch applied to /repo, ./check <property> <tier>, git checkout -- ."
        m["check_results"] = result.get("checks", {})
        json.dump(m, open(os.path.join(dst, "meta.json"), "w"), indent=1)
    print(json.dumps(result, indent=1))


if __name__ == "__main__":
    main()
