// Package vsync stands in for "sync" in the wasp packages explored by engine E4 (import rewritten
// through a build overlay). Outside an exploration every type behaves exactly like its sync
// counterpart; inside, Lock/Unlock are scheduling points of the cooperative scheduler.
package vsync

import (
	"sync"

	"verif/sched"
)

type (
	WaitGroup = sync.WaitGroup
	Once      = sync.Once
	Map       = sync.Map
	Pool      = sync.Pool
	Cond      = sync.Cond
	Locker    = sync.Locker
)

type Mutex struct {
	real sync.Mutex
	held bool
}

func (m *Mutex) Lock() {
	if e := sched.Current(); e != nil {
		e.Point("Mutex.Lock", func() bool { return !m.held })
		m.held = true
		return
	}
	m.real.Lock()
}
func (m *Mutex) Unlock() {
	if e := sched.Current(); e != nil {
		if !m.held {
			panic("vsync: unlock of unlocked mutex")
		}
		m.held = false
		e.Point("Mutex.Unlock", nil)
		return
	}
	m.real.Unlock()
}

type RWMutex struct {
	real    sync.RWMutex
	writer  bool
	readers int
}

func (m *RWMutex) Lock() {
	if e := sched.Current(); e != nil {
		e.Point("RWMutex.Lock", func() bool { return !m.writer && m.readers == 0 })
		m.writer = true
		return
	}
	m.real.Lock()
}
func (m *RWMutex) Unlock() {
	if e := sched.Current(); e != nil {
		if !m.writer {
			panic("vsync: unlock of unlocked RWMutex")
		}
		m.writer = false
		e.Point("RWMutex.Unlock", nil)
		return
	}
	m.real.Unlock()
}
func (m *RWMutex) RLock() {
	if e := sched.Current(); e != nil {
		e.Point("RWMutex.RLock", func() bool { return !m.writer })
		m.readers++
		return
	}
	m.real.RLock()
}
func (m *RWMutex) RUnlock() {
	if e := sched.Current(); e != nil {
		if m.readers <= 0 {
			panic("vsync: RUnlock of unlocked RWMutex")
		}
		m.readers--
		e.Point("RWMutex.RUnlock", nil)
		return
	}
	m.real.RUnlock()
}
