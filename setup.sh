#!/bin/sh
# Offline setup: copies go.sum and pre-builds the engine test binaries (warms the Go build cache).
set -e
cd "$(dirname "$0")"
export GOFLAGS=-mod=mod GOPROXY=off GOSUMDB=off GOTOOLCHAIN=local
cp /repo/go.sum go.sum
mkdir -p .build evidence replays
for p in e1 e2 e3; do
  go1.26.8 test -c -tags verif -vet=off -o .build/$p.test ./$p
done
python3 e4/mkoverlay.py .build/overlay
go1.26.8 test -c -tags verif -vet=off -overlay .build/overlay/overlay.json -o .build/e4.test ./e4
python3 e4/mkoverlay.py .build/overlay.race
go1.26.8 test -c -race -tags verif -vet=off -overlay .build/overlay.race/overlay.json -o .build/e4.race.test ./e4
echo setup ok
