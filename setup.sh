#!/bin/sh
# Offline setup: copies go.sum and pre-builds the engine test binaries (warms the Go build cache).
set -e
cd "$(dirname "$0")"
export GOFLAGS=-mod=mod GOPROXY=off GOSUMDB=off GOTOOLCHAIN=local
cp /repo/go.sum go.sum
mkdir -p .build evidence replays
for p in e1 e3; do
  go1.26.8 test -c -tags verif -vet=off -o .build/$p.test ./$p
done
python3 e2/mkoverlay.py .build/overlay-e2
go1.26.8 test -c -tags verif -vet=off -overlay .build/overlay-e2/overlay.json -o .build/e2.test ./e2
python3 e4/mkoverlay.py .build/overlay
go1.26.8 test -c -tags verif -vet=off -overlay .build/overlay/overlay.json -o .build/e4.test ./e4
python3 e4/mkoverlay.py .build/overlay.race
go1.26.8 test -c -race -tags verif -vet=off -overlay .build/overlay.race/overlay.json -o .build/e4.race.test ./e4
# E5: the harness test compiled into /repo/cmd/wasp through an overlay (nothing is written to /repo)
mkdir -p .build/overlay-e5
printf '{"Replace": {"/repo/cmd/wasp/zz_verif_e5_test.go": "%s/e5/cmdwasp_test.go.src"}}\n' "$(pwd)" > .build/overlay-e5/overlay.json
(cd /repo && go1.26.8 test -c -tags verif -vet=off -overlay "$OLDPWD/.build/overlay-e5/overlay.json" -o "$OLDPWD/.build/e5.test" ./cmd/wasp)
echo setup ok
