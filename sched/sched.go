// Package sched is the cooperative scheduler of engine E4 (`schedx`): harness threads run one at a
// time; every synchronisation operation of the code under test (through the vsync / vgotomic shims)
// is a scheduling point. Explore enumerates all schedules up to a preemption bound (iterative
// context bounding) by depth-first search over choice sequences, re-executing from scratch.
package sched

import (
	"fmt"
	"runtime"
	"strings"
	"sync"
	"sync/atomic"
	"time"
)

type thread struct {
	id      int
	resume  chan struct{}
	done    bool
	enabled func() bool // nil = always enabled
	what    string
}

// Exec is one execution under the scheduler.
type Exec struct {
	threads []*thread
	yield   chan *thread
	running *thread
	prefix  []int
	// recorded
	Points  []PointRec
	Choices []int
	Steps   int
	Trace   []string
	Err     string // deadlock / divergence / step cap / stuck
	// Stuck: the running thread did not come back to the scheduler (blocked on a primitive the overlay does not shim, or
	// spinning without a scheduling point). Its goroutine cannot be unwound; exploration of this scenario stops.
	Stuck   bool
	Panics  []string
	aborted atomic.Bool
	wg      sync.WaitGroup
}

// PointRec is one choice point.
type PointRec struct {
	Enabled             []int
	RunningStillEnabled bool
	Chosen              int
}

var current atomic.Pointer[Exec]

// Current returns the active execution (nil outside an exploration: the shims then use the real primitives).
func Current() *Exec { return current.Load() }

// Point parks the calling thread until the scheduler resumes it; enabled (may be nil) tells whether
// the operation it is about to perform can proceed.
func (e *Exec) Point(what string, enabled func() bool) {
	if e.aborted.Load() {
		return
	}
	t := e.running
	if t == nil {
		return
	}
	t.enabled = enabled
	t.what = what
	e.yield <- t
	<-t.resume
	if e.aborted.Load() {
		runtime.Goexit()
	}
	t.enabled = nil
}

// Step returns a logical timestamp (number of scheduling steps so far).
func (e *Exec) Step() int { return e.Steps }

const maxSteps = 20000

// stuckAfter bounds the real time one thread may run between two scheduling points.
const stuckAfter = 20 * time.Second

// Run executes the thread bodies under the schedule given by prefix (then choice 0 everywhere).
func Run(bodies []func(), prefix []int) *Exec {
	e := &Exec{yield: make(chan *thread), prefix: prefix}
	for i, b := range bodies {
		t := &thread{id: i, resume: make(chan struct{}), what: "start"}
		e.threads = append(e.threads, t)
		e.wg.Add(1)
		go func(t *thread, b func()) {
			defer e.wg.Done()
			<-t.resume
			if e.aborted.Load() {
				return
			}
			defer func() {
				if r := recover(); r != nil {
					buf := make([]byte, 2048)
					n := runtime.Stack(buf, false)
					e.Panics = append(e.Panics, fmt.Sprintf("thread %d: %v\n%s", t.id, r, firstFrames(string(buf[:n]))))
				}
				t.done = true
				if !e.aborted.Load() {
					e.yield <- t
				}
			}()
			b()
		}(t, b)
	}
	current.Store(e)
	defer current.Store(nil)
	var last *thread
	for {
		var en []*thread
		if last != nil && !last.done && (last.enabled == nil || last.enabled()) {
			en = append(en, last)
		}
		for _, t := range e.threads {
			if t != last && !t.done && (t.enabled == nil || t.enabled()) {
				en = append(en, t)
			}
		}
		if len(en) == 0 {
			alldone := true
			var blocked []string
			for _, t := range e.threads {
				if !t.done {
					alldone = false
					blocked = append(blocked, fmt.Sprintf("thread %d at %s", t.id, t.what))
				}
			}
			if !alldone {
				e.Err = "deadlock: " + strings.Join(blocked, ", ")
				e.abort()
			}
			return e
		}
		pick := en[0]
		if len(en) > 1 {
			idx := 0
			i := len(e.Points)
			if i < len(e.prefix) {
				idx = e.prefix[i]
				if idx >= len(en) {
					e.Err = fmt.Sprintf("replay divergence at choice point %d: choice %d but only %d enabled", i, idx, len(en))
					e.abort()
					return e
				}
			}
			ids := make([]int, len(en))
			for k, t := range en {
				ids[k] = t.id
			}
			e.Points = append(e.Points, PointRec{Enabled: ids, RunningStillEnabled: last != nil && en[0] == last, Chosen: idx})
			e.Choices = append(e.Choices, idx)
			pick = en[idx]
		}
		e.Steps++
		if e.Steps > maxSteps {
			e.Err = "step cap reached (livelock?)"
			e.abort()
			return e
		}
		if len(e.Trace) < 400 {
			e.Trace = append(e.Trace, fmt.Sprintf("t%d:%s", pick.id, pick.what))
		}
		e.running = pick
		last = pick
		pick.resume <- struct{}{}
		select {
		case <-e.yield:
		case <-time.After(stuckAfter):
			e.Err = fmt.Sprintf("stuck: thread %d did not reach another scheduling point within %v after %s (blocked on a primitive that is not a scheduling point, or looping)", pick.id, stuckAfter, pick.what)
			e.Stuck = true
			e.aborted.Store(true)
			return e
		}
		e.running = nil
	}
}

func (e *Exec) abort() {
	e.aborted.Store(true)
	for _, t := range e.threads {
		if !t.done {
			select {
			case t.resume <- struct{}{}:
			default:
				// the thread is not parked on resume (cannot happen: only one runs at a time)
			}
		}
	}
	// wait until every aborted thread has unwound (their deferred unlocks must not reach the next execution)
	e.wg.Wait()
}

func firstFrames(s string) string {
	lines := strings.Split(s, "\n")
	if len(lines) > 14 {
		lines = lines[:14]
	}
	return strings.Join(lines, "\n")
}

// Stats of an exploration.
type Stats struct {
	Executions int64
	Points     int64
	Bound      int
	Complete   bool
}

// Explore runs every schedule of the bodies produced by mk (a fresh instance per execution) with
// at most bound preemptions and calls check on each finished execution. stop() may end the search early.
func Explore(mk func() []func(), bound int, check func(e *Exec), stop func() bool) Stats {
	st := Stats{Bound: bound, Complete: true}
	var rec func(prefix []int)
	stuck := false
	rec = func(prefix []int) {
		if stuck {
			return
		}
		if stop != nil && stop() {
			st.Complete = false
			return
		}
		x := Run(mk(), prefix)
		st.Executions++
		st.Points += int64(len(x.Points))
		check(x)
		if x.Stuck {
			st.Complete = false
			stuck = true
			return
		}
		if x.Err != "" && strings.HasPrefix(x.Err, "replay divergence") {
			return
		}
		cost := 0
		for i := 0; i < len(x.Points); i++ {
			p := x.Points[i]
			if i >= len(prefix) {
				for alt := 1; alt < len(p.Enabled); alt++ {
					c := cost
					if p.RunningStillEnabled {
						c++ // switching away from a runnable thread is a preemption
					}
					if c > bound {
						continue
					}
					np := append(append([]int{}, x.Choices[:i]...), alt)
					rec(np)
				}
			}
			if p.RunningStillEnabled && p.Chosen != 0 {
				cost++
			}
		}
	}
	rec(nil)
	return st
}
