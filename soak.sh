#!/bin/sh
# Runs every registered quick check N times and reports any run that is not "held" (flakiness hunt).
N=${1:-5}
cd "$(dirname "$0")"
for i in $(seq 1 $N); do
  for c in C01 C02 C03 C04 C05 C06 C07 C08 C09 C10 C11 C12 C13 C14 C15 C16 C17 C18 C19 C20; do
    out=$(VERIF_SEED=$i ./check $c quick 2>&1); code=$?
    if [ $code -ne 0 ]; then echo "RUN $i $c exit=$code"; echo "$out" | grep -v "^KNOWN-FINDING" | head -8 | cut -c1-600; fi
  done
  echo "round $i done"
done
