module verif

go 1.26.8

require github.com/vx-labs/wasp/v4 v4.0.0

require (
	github.com/gogo/protobuf v1.2.1 // indirect
	github.com/golang/protobuf v1.4.3 // indirect
	google.golang.org/protobuf v1.25.0 // indirect
)

replace github.com/vx-labs/wasp/v4 => /repo
