// Package vcommitlog is what the E4 overlay makes wasp/messages open its commit log through: the library's own
// mutex cannot be shimmed (module-cache files cannot be overlaid), so the proxy takes a shimmed lock around each call
// that the library serialises itself. Semantically a no-op; under the controlled scheduler every call into the log
// becomes a scheduling point.
package vcommitlog

import (
	"github.com/vx-labs/commitlog"

	sync "verif/vsync"
)

type proxy struct {
	commitlog.CommitLog
	mu sync.Mutex
}

// Open mirrors commitlog.Open.
func Open(path string, segmentSize uint64) (commitlog.CommitLog, error) {
	l, err := commitlog.Open(path, segmentSize)
	if err != nil {
		return nil, err
	}
	return &proxy{CommitLog: l}, nil
}

func (p *proxy) WriteEntry(ts uint64, value []byte) (uint64, error) {
	p.mu.Lock()
	defer p.mu.Unlock()
	return p.CommitLog.WriteEntry(ts, value)
}

func (p *proxy) Reader() commitlog.Cursor {
	p.mu.Lock()
	defer p.mu.Unlock()
	return p.CommitLog.Reader()
}
