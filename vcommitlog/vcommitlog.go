// Package vcommitlog is what the E4 overlay makes wasp/messages open its commit log through: the library's own
// mutex cannot be shimmed (module-cache files cannot be overlaid), so the proxy takes a shimmed lock around each call
// that the library serialises itself. Semantically a no-op; under the controlled scheduler every call into the log
// becomes a scheduling point.
package vcommitlog

import (
	"reflect"

	"github.com/vx-labs/commitlog"

	sync "verif/vsync"
)

type proxy struct {
	commitlog.CommitLog
	mu sync.Mutex
}

// Open mirrors commitlog.Open, options included (their type is unexported in the library, hence the reflective call:
// a change of the repository that opens its log with options must be explored, not end in a build failure).
func Open(path string, segmentSize uint64, opts ...interface{}) (commitlog.CommitLog, error) {
	args := []reflect.Value{reflect.ValueOf(path), reflect.ValueOf(segmentSize)}
	for _, o := range opts {
		args = append(args, reflect.ValueOf(o))
	}
	out := reflect.ValueOf(commitlog.Open).Call(args)
	if e := out[1].Interface(); e != nil {
		return nil, e.(error)
	}
	return &proxy{CommitLog: out[0].Interface().(commitlog.CommitLog)}, nil
}

func (p *proxy) WriteEntry(ts uint64, value []byte) (uint64, error) {
	p.mu.Lock()
	defer p.mu.Unlock()
	return p.CommitLog.WriteEntry(ts, value)
}

func (p *proxy) Reader() commitlog.Cursor {
	p.mu.Lock()
	defer p.mu.Unlock()
	return p.CommitLog.Reader()
}
