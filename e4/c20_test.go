package e4

import (
	"context"
	"encoding/json"
	"fmt"
	"os"
	"sort"
	"strings"
	"sync"
	"sync/atomic"
	"testing"
	"time"

	"github.com/golang/protobuf/proto"
	"github.com/hashicorp/memberlist"
	"github.com/vx-labs/mqtt-protocol/packet"
	"github.com/vx-labs/wasp/v4/subscriptions"
	"github.com/vx-labs/wasp/v4/topics"
	"github.com/vx-labs/wasp/v4/wasp"
	"github.com/vx-labs/wasp/v4/wasp/ack"
	"github.com/vx-labs/wasp/v4/wasp/api"
	"github.com/vx-labs/wasp/v4/wasp/audit"
	"github.com/vx-labs/wasp/v4/wasp/distributed"
	"github.com/vx-labs/wasp/v4/wasp/expiration"
	"github.com/vx-labs/wasp/v4/wasp/messages"
	"github.com/vx-labs/wasp/v4/wasp/sessions"

	"verif/internal/vk"
	"verif/sched"
)

var clockTick atomic.Int64

func init() {
	distributed.VerifSetClock(func() int64 { return 1_000_000 + clockTick.Add(1) })
}

var T0 = time.Unix(1700000000, 100_000_000)

func sessOf(id string) *sessions.Session {
	s, _ := sessions.NewSession(id, "m", "tcp", nil, &packet.Connect{Header: &packet.Header{}, ClientId: []byte(id)})
	return s
}

func sortedJoin(xs []string) string { sort.Strings(xs); return strings.Join(xs, ",") }

// ---- scenarios ----

type ackSys struct {
	q   ack.Queue
	mu  sync.Mutex // guards log (callbacks may run on any thread; real mutex, uncontended under the scheduler)
	log []string
}

func (a *ackSys) cb(name string) ack.Callback {
	return func(expired bool, stored, received packet.Packet) {
		a.mu.Lock()
		a.log = append(a.log, fmt.Sprintf("%s:expired=%v", name, expired))
		a.mu.Unlock()
	}
}
func pub1(id int32) packet.Packet {
	return &packet.Publish{Header: &packet.Header{Qos: 1}, MessageId: id, Topic: []byte("t")}
}
func puback(id int32) packet.Packet { return &packet.PubAck{Header: &packet.Header{}, MessageId: id} }
func errs(err error) string {
	if err != nil {
		return "err"
	}
	return "ok"
}

type dsys struct {
	st distributed.State
	q  *memberlist.TransmitLimitedQueue
}

func newDsys() *dsys {
	q := &memberlist.TransmitLimitedQueue{RetransmitMult: 1, NumNodes: func() int { return 1 }}
	return &dsys{st: distributed.NewState(1, q, audit.NoneRecorder()), q: q}
}
func (d *dsys) retained() string {
	var r []string
	ms, _ := d.st.Topics().Get([]byte("#"))
	for _, m := range ms {
		r = append(r, string(m.Publish.Topic)+"="+string(m.Publish.Payload))
	}
	return sortedJoin(r)
}

func (d *dsys) lookup(filter string) string {
	var r []string
	ms, err := d.st.Topics().Get([]byte(filter))
	if err != nil {
		return "error"
	}
	for _, m := range ms {
		r = append(r, string(m.Publish.Topic)+"="+string(m.Publish.Payload))
	}
	return "[" + sortedJoin(r) + "]"
}

// mirrorView: what a second node lists after receiving everything this node queued (plus extra payloads)
func (d *dsys) mirrorView(extra ...[]byte) string {
	m := newDsys()
	for _, e := range extra {
		m.st.Distributor().NotifyMsg(e)
	}
	for {
		b := d.q.GetBroadcasts(0, 1<<24)
		if len(b) == 0 {
			break
		}
		for _, x := range b {
			m.st.Distributor().NotifyMsg(x)
		}
	}
	return m.view() + " retained[" + m.retained() + "]"
}

func (d *dsys) view() string {
	var ss, subs []string
	for _, s := range d.st.SessionMetadatas().All() {
		ss = append(ss, fmt.Sprintf("%s@%d", s.SessionID, s.Peer))
	}
	for _, s := range d.st.Subscriptions().All() {
		subs = append(subs, fmt.Sprintf("%s|%s@%d", s.SessionID, s.Pattern, s.Peer))
	}
	return "sessions[" + sortedJoin(ss) + "] subs[" + sortedJoin(subs) + "]"
}

func remoteBatch() []byte {
	ev := &api.StateBroadcastEvent{
		Subscriptions: []*api.Subscription{
			{SessionID: "r1", Pattern: []byte("m/a"), Peer: 2, QoS: 1, LastAdded: 500},
			{SessionID: "r2", Pattern: []byte("m/b"), Peer: 2, QoS: 1, LastAdded: 501},
		},
		SessionMetadatas: []*api.SessionMetadatas{{SessionID: "r1", ClientID: "c", Peer: 2, MountPoint: "m", LastAdded: 502}},
	}
	b, _ := proto.Marshal(ev)
	return b
}

func scenarios() []*Scenario {
	var out []*Scenario
	// (1) session registry
	out = append(out, &Scenario{
		Name: "registry: Create(k1) || Create(k2) || Delete(k1);Get(k2);List",
		New:  func() any { return wasp.NewState(1) },
		Threads: [][]Op{
			{{"Create(k1)", func(s any) string { return fmt.Sprint(s.(wasp.LocalState).Create("k1", sessOf("k1")) != nil) }}},
			{{"Create(k2)", func(s any) string { return fmt.Sprint(s.(wasp.LocalState).Create("k2", sessOf("k2")) != nil) }}},
			{{"Delete(k1)", func(s any) string { return fmt.Sprint(s.(wasp.LocalState).Delete("k1") != nil) }},
				{"Get(k2)", func(s any) string { return fmt.Sprint(s.(wasp.LocalState).Get("k2") != nil) }},
				{"List", func(s any) string { return fmt.Sprint(len(s.(wasp.LocalState).ListSessions())) }}},
		},
		Observe: func(s any) string {
			var ids []string
			for _, x := range s.(wasp.LocalState).ListSessions() {
				ids = append(ids, x.ID())
			}
			return sortedJoin(ids)
		},
	})
	// (2) identifier pool
	out = append(out, &Scenario{
		Name: "idpool: Get || Get || Put(1);Get   (range 0..4, 0 and 1 outstanding)",
		New: func() any {
			p := wasp.VerifNewMIDPool(0, 4)
			p.Get()
			p.Get()
			return p
		},
		Threads: [][]Op{
			{{"Get", func(s any) string { return fmt.Sprint(s.(wasp.VerifMIDPool).Get()) }}},
			{{"Get", func(s any) string { return fmt.Sprint(s.(wasp.VerifMIDPool).Get()) }}},
			{{"Put(1)", func(s any) string { s.(wasp.VerifMIDPool).Put(1); return "" }},
				{"Get", func(s any) string { return fmt.Sprint(s.(wasp.VerifMIDPool).Get()) }}},
		},
		Observe: func(s any) string {
			// drain: what is still free
			var free []string
			for i := 0; i < 8; i++ {
				v := s.(wasp.VerifMIDPool).Get()
				if v < 0 || v > 4 {
					break
				}
				free = append(free, fmt.Sprint(v))
			}
			return "free:" + sortedJoin(free)
		},
	})
	// (3a) in-flight table: inserts vs ack vs sweep
	out = append(out, &Scenario{
		Name: "ack.Queue: Insert(s/1);Insert(s/2) || Ack(s/1) || Expire(T+5s)",
		New:  func() any { return &ackSys{q: ack.NewQueue()} },
		Threads: [][]Op{
			{{"Insert(s/1)", func(s any) string {
				return errs(s.(*ackSys).q.Insert("s", pub1(1), T0, s.(*ackSys).cb("s/1")))
			}},
				{"Insert(s/2)", func(s any) string {
					return errs(s.(*ackSys).q.Insert("s", pub1(2), T0, s.(*ackSys).cb("s/2")))
				}}},
			{{"Ack(s/1)", func(s any) string { return errs(s.(*ackSys).q.Ack("s", puback(1))) }}},
			{{"Expire(T+5s)", func(s any) string { s.(*ackSys).q.Expire(T0.Add(5 * time.Second)); return "" }}},
		},
		Observe: func(s any) string {
			a := s.(*ackSys)
			a.q.Expire(T0.Add(1000 * time.Second)) // everything still pending must resolve now
			return sortedJoin(append([]string{}, a.log...))
		},
	})
	// (3b) duplicate insert vs ack
	out = append(out, &Scenario{
		Name: "ack.Queue: Insert(s/1,T) || Ack(s/1) || Insert(s/1,T+3s)",
		New:  func() any { return &ackSys{q: ack.NewQueue()} },
		Threads: [][]Op{
			{{"Insert(s/1,T)", func(s any) string {
				return errs(s.(*ackSys).q.Insert("s", pub1(1), T0, s.(*ackSys).cb("first")))
			}}},
			{{"Ack(s/1)", func(s any) string { return errs(s.(*ackSys).q.Ack("s", puback(1))) }}},
			{{"Insert(s/1,T+3s)", func(s any) string {
				return errs(s.(*ackSys).q.Insert("s", pub1(1), T0.Add(3*time.Second), s.(*ackSys).cb("second")))
			}}},
		},
		Observe: func(s any) string {
			a := s.(*ackSys)
			a.q.Expire(T0.Add(1000 * time.Second))
			return sortedJoin(append([]string{}, a.log...))
		},
	})
	// (4) timeout lists
	for _, impl := range []struct {
		name string
		mk   func() expiration.List
	}{{"pqList", expiration.VerifNewPQList}, {"skipList", expiration.VerifNewSkipList}} {
		impl := impl
		exp := func(s any, now time.Time) string {
			var ids []string
			for _, v := range s.(expiration.List).Expire(now) {
				ids = append(ids, fmt.Sprint(v))
			}
			return sortedJoin(ids)
		}
		out = append(out, &Scenario{
			Name: impl.name + ": [x@T present] Insert(a,T+0.2s) || Insert(b,T+0.3s) || Expire(T+5s)",
			New: func() any {
				l := impl.mk()
				l.Insert("x", T0)
				return l
			},
			Threads: [][]Op{
				{{"Insert(a)", func(s any) string { s.(expiration.List).Insert("a", T0.Add(200*time.Millisecond)); return "" }}},
				{{"Insert(b)", func(s any) string { s.(expiration.List).Insert("b", T0.Add(300*time.Millisecond)); return "" }}},
				{{"Expire", func(s any) string { return exp(s, T0.Add(5*time.Second)) }}},
			},
			Observe: func(s any) string { return "later:" + exp(s, T0.Add(1000*time.Second)) },
		})
		out = append(out, &Scenario{
			Name: impl.name + ": [a,b@T present] Delete(a) || Expire(T+5s) || Insert(c,T)",
			New: func() any {
				l := impl.mk()
				l.Insert("a", T0)
				l.Insert("b", T0)
				return l
			},
			Threads: [][]Op{
				{{"Delete(a)", func(s any) string { s.(expiration.List).Delete("a", T0); return "" }}},
				{{"Expire", func(s any) string { return exp(s, T0.Add(5*time.Second)) }}},
				{{"Insert(c)", func(s any) string { s.(expiration.List).Insert("c", T0); return "" }}},
			},
			Observe: func(s any) string { return "later:" + exp(s, T0.Add(1000*time.Second)) },
		})
		// the deletion empties the second's bucket while two registrations for the same second arrive
		out = append(out, &Scenario{
			Name: impl.name + ": [a@T alone in its second] Delete(a) || Insert(c,T+0.1s) || Insert(d,T+0.2s)",
			New: func() any {
				l := impl.mk()
				l.Insert("a", T0)
				return l
			},
			Threads: [][]Op{
				{{"Delete(a)", func(s any) string { s.(expiration.List).Delete("a", T0); return "" }}},
				{{"Insert(c)", func(s any) string { s.(expiration.List).Insert("c", T0.Add(100*time.Millisecond)); return "" }}},
				{{"Insert(d)", func(s any) string { s.(expiration.List).Insert("d", T0.Add(200*time.Millisecond)); return "" }}},
			},
			Observe:       func(s any) string { return "later:" + exp(s, T0.Add(1000*time.Second)) },
			SingleOutcome: true,
		})
	}
	// (5) tries
	out = append(out, &Scenario{
		Name: "subscriptions.Tree: Upsert(a/b) || Upsert(a/c);Upsert(a/c->nil) || Walk(a/b);Walk(a/c)",
		New:  func() any { return subscriptions.NewTree() },
		Threads: [][]Op{
			{{"Upsert(a/b)", func(s any) string {
				s.(subscriptions.Tree).Upsert([]byte("a/b"), func([]byte) []byte { return []byte("B") })
				return ""
			}}},
			{{"Upsert(a/c)", func(s any) string {
				s.(subscriptions.Tree).Upsert([]byte("a/c"), func([]byte) []byte { return []byte("C") })
				return ""
			}},
				{"Remove(a/c)", func(s any) string {
					s.(subscriptions.Tree).Upsert([]byte("a/c"), func([]byte) []byte { return nil })
					return ""
				}}},
			{{"Walk(a/b)", func(s any) string { return walk(s.(subscriptions.Tree), "a/b") }},
				{"Walk(a/c)", func(s any) string { return walk(s.(subscriptions.Tree), "a/c") }}},
		},
		Observe: func(s any) string {
			var all []string
			s.(subscriptions.Tree).Iterate(func(b []byte) { all = append(all, string(b)) })
			return sortedJoin(all)
		},
	})
	out = append(out, &Scenario{
		Name: "topics.Store: Insert(a/b) || Insert(a);Remove(a) || Match(a/#);Count",
		New:  func() any { return topics.NewTree() },
		Threads: [][]Op{
			{{"Insert(a/b)", func(s any) string { s.(topics.Store).Insert([]byte("a/b"), []byte("B")); return "" }}},
			{{"Insert(a)", func(s any) string { s.(topics.Store).Insert([]byte("a"), []byte("A")); return "" }},
				{"Remove(a)", func(s any) string { s.(topics.Store).Remove([]byte("a")); return "" }}},
			{{"Match(a/#)", func(s any) string {
				var o [][]byte
				s.(topics.Store).Match([]byte("a/#"), &o)
				var r []string
				for _, b := range o {
					r = append(r, string(b))
				}
				return sortedJoin(r)
			}},
				{"Count", func(s any) string { return fmt.Sprint(s.(topics.Store).Count()) }}},
		},
		Observe: func(s any) string {
			var all []string
			s.(topics.Store).Iterate(func(b []byte) { all = append(all, string(b)) })
			return sortedJoin(all)
		},
	})
	// (6) replicated state
	batch := remoteBatch()
	out = append(out, &Scenario{
		Name: "distributed: subs.Create(s1,m/a) || MergeRemoteState(batch) || DeleteSession(r1);ByPattern(m/a)",
		New:  func() any { return newDsys() },
		Threads: [][]Op{
			{{"Create(s1,m/a)", func(s any) string { return errs(s.(*dsys).st.Subscriptions().Create("s1", []byte("m/a"), 0)) }}},
			{{"Merge(batch)", func(s any) string { s.(*dsys).st.Distributor().MergeRemoteState(batch, false); return "" }}},
			{{"DeleteSession(r1)", func(s any) string { s.(*dsys).st.Subscriptions().DeleteSession("r1"); return "" }},
				{"ByPattern(m/a)", func(s any) string {
					var r []string
					for _, x := range s.(*dsys).st.Subscriptions().ByPattern([]byte("m/a")) {
						r = append(r, x.SessionID)
					}
					return sortedJoin(r)
				}}},
		},
		// what a later lookup resolves is part of the observation (a cached route must not outlive a change)
		Observe: func(s any) string {
			var r []string
			for _, x := range s.(*dsys).st.Subscriptions().ByPattern([]byte("m/a")) {
				r = append(r, x.SessionID)
			}
			return s.(*dsys).view() + " ByPattern(m/a)=" + sortedJoin(r)
		},
	})
	out = append(out, &Scenario{
		Name: "distributed: sessions.Create(s1) || sessions.Create(s2) || DeletePeer(1);ByPeer(1)",
		New:  func() any { return newDsys() },
		Threads: [][]Op{
			{{"Create(s1)", func(s any) string { return errs(s.(*dsys).st.SessionMetadatas().Create("s1", "c1", 1, nil, "m")) }}},
			{{"Create(s2)", func(s any) string { return errs(s.(*dsys).st.SessionMetadatas().Create("s2", "c2", 1, nil, "m")) }}},
			{{"DeletePeer(1)", func(s any) string { s.(*dsys).st.SessionMetadatas().DeletePeer(1); return "" }},
				{"ByPeer(1)", func(s any) string { return fmt.Sprint(len(s.(*dsys).st.SessionMetadatas().ByPeer(1))) }}},
		},
		Observe: func(s any) string { return s.(*dsys).view() },
	})
	// (6b') a local removal of a session while a newer copy of its record (written by a node whose clock runs ahead)
	// is merged, and a retained message is stored at the same time: what the node lists must be what a node fed with the
	// same remote update and this node's broadcasts lists
	remoteSession := func() []byte {
		ev := &api.StateBroadcastEvent{SessionMetadatas: []*api.SessionMetadatas{{SessionID: "s1", ClientID: "c1", Peer: 2, MountPoint: "m", LastAdded: 1_000_000 + 50}}}
		b, _ := proto.Marshal(ev)
		return b
	}()
	out = append(out, &Scenario{
		Name: "distributed: sessions.Delete(s1) || MergeRemoteState(newer s1) || topics.Set(m/t,x);sessions.Create(s2)",
		New: func() any {
			clockTick.Store(0)
			d := newDsys()
			d.st.SessionMetadatas().Create("s1", "c1", 1, nil, "m")
			return d
		},
		Threads: [][]Op{
			{{"Delete(s1)", func(s any) string { return errs(s.(*dsys).st.SessionMetadatas().Delete("s1")) }}},
			{{"Merge(newer s1)", func(s any) string { s.(*dsys).st.Distributor().MergeRemoteState(remoteSession, false); return "" }}},
			{{"Set(m/t,x)", func(s any) string {
				return errs(s.(*dsys).st.Topics().Set(&packet.Publish{Header: &packet.Header{}, Topic: []byte("m/t"), Payload: []byte("x")}))
			}},
				{"Create(s2)", func(s any) string { return errs(s.(*dsys).st.SessionMetadatas().Create("s2", "c2", 1, nil, "m")) }}},
		},
		Observe: func(s any) string {
			d := s.(*dsys)
			own := d.view() + " retained[" + d.retained() + "]"
			m := newDsys()
			m.st.Distributor().NotifyMsg(remoteSession)
			for {
				b := d.q.GetBroadcasts(0, 1<<24)
				if len(b) == 0 {
					break
				}
				for _, x := range b {
					m.st.Distributor().NotifyMsg(x)
				}
			}
			if mv := m.view() + " retained[" + m.retained() + "]"; mv != own {
				return "DIVERGED origin " + own + " vs node fed with the same update and its broadcasts " + mv
			}
			return "converged " + own
		},
	})
	// (6c) concurrent local writes to one retained topic while a newer remote copy is merged: what the node keeps
	// must be what a node fed with its broadcasts keeps
	remoteRetained := func() []byte {
		ev := &api.StateBroadcastEvent{RetainedMessages: []*api.RetainedMessage{{Publish: &packet.Publish{Header: &packet.Header{}, Topic: []byte("m/t"), Payload: []byte("z")}, LastAdded: 1_000_000 + 50}}}
		b, _ := proto.Marshal(ev)
		return b
	}()
	out = append(out, &Scenario{
		Name: "distributed: topics.Set(m/t,x) || topics.Set(m/t,y);topics.Delete(m/t) || MergeRemoteState(retained m/t=z)",
		New:  func() any { clockTick.Store(0); return newDsys() },
		Threads: [][]Op{
			{{"Set(m/t,x)", func(s any) string {
				return errs(s.(*dsys).st.Topics().Set(&packet.Publish{Header: &packet.Header{}, Topic: []byte("m/t"), Payload: []byte("x")}))
			}}},
			{{"Set(m/t,y)", func(s any) string {
				return errs(s.(*dsys).st.Topics().Set(&packet.Publish{Header: &packet.Header{}, Topic: []byte("m/t"), Payload: []byte("y")}))
			}},
				{"Set(m/u,w)", func(s any) string {
					return errs(s.(*dsys).st.Topics().Set(&packet.Publish{Header: &packet.Header{}, Topic: []byte("m/u"), Payload: []byte("w")}))
				}}},
			{{"Merge(m/t=z)", func(s any) string { s.(*dsys).st.Distributor().MergeRemoteState(remoteRetained, false); return "" }}},
		},
		Observe: func(s any) string {
			d := s.(*dsys)
			own := "retained[" + d.retained() + "]"
			mirror := d.mirrorView(remoteRetained)
			if !strings.HasSuffix(mirror, own) {
				return "DIVERGED origin " + own + " vs node fed with its broadcasts " + mirror
			}
			return "converged " + own
		},
	})
	// (6d) a payload that is OLDER than what the node writes at the same time (a late gossip message, a full-state exchange
	// with a lagging peer) on the very keys being written: whatever the merge found when it started, the local writes are
	// newer and must be what the node keeps, and what a node fed with the same payload and its broadcasts keeps
	olderBatch := func() []byte {
		ev := &api.StateBroadcastEvent{
			RetainedMessages: []*api.RetainedMessage{{Publish: &packet.Publish{Header: &packet.Header{}, Topic: []byte("m/t"), Payload: []byte("old")}, LastAdded: 900_000}},
			Subscriptions:    []*api.Subscription{{SessionID: "s1", Pattern: []byte("m/a"), Peer: 1, QoS: 0, LastAdded: 899_000, LastDeleted: 900_000}},
			SessionMetadatas: []*api.SessionMetadatas{{SessionID: "s1", ClientID: "c1", Peer: 1, MountPoint: "m", LastAdded: 899_000, LastDeleted: 900_000}},
		}
		b, _ := proto.Marshal(ev)
		return b
	}()
	out = append(out, &Scenario{
		Name: "distributed: topics.Set(m/t,x) || MergeRemoteState(older: m/t=old, removal of s1 and of s1|m/a);Get(m/t) || subs.Create(s1,m/a);sessions.Create(s1)",
		New:  func() any { clockTick.Store(0); return newDsys() },
		Threads: [][]Op{
			{{"Set(m/t,x)", func(s any) string {
				return errs(s.(*dsys).st.Topics().Set(&packet.Publish{Header: &packet.Header{}, Topic: []byte("m/t"), Payload: []byte("x")}))
			}}},
			{{"Merge(older)", func(s any) string { s.(*dsys).st.Distributor().MergeRemoteState(olderBatch, false); return "" }},
				{"Get(m/t)", func(s any) string { return s.(*dsys).lookup("m/t") }}},
			{{"Create(s1,m/a)", func(s any) string { return errs(s.(*dsys).st.Subscriptions().Create("s1", []byte("m/a"), 0)) }},
				{"Create(s1)", func(s any) string { return errs(s.(*dsys).st.SessionMetadatas().Create("s1", "c1", 1, nil, "m")) }}},
		},
		Observe: func(s any) string {
			d := s.(*dsys)
			own := d.view() + " retained[" + d.retained() + "]"
			if mirror := d.mirrorView(olderBatch); mirror != own {
				return "DIVERGED origin " + own + " vs node fed with the same payload and its broadcasts " + mirror
			}
			return "converged " + own
		},
	})
	// (3d) retained-message lookups (new subscribers) reaching below a stored leaf and into an empty branch, while a
	// publisher stores another retained message
	out = append(out, &Scenario{
		Name: "distributed: topics lookups, Get(m/t/u);Get(m/+) || Get(m/t/v);Get(q/r) || Set(m/v,w);Get(m/v/x)",
		New: func() any {
			clockTick.Store(0)
			d := newDsys()
			d.st.Topics().Set(&packet.Publish{Header: &packet.Header{}, Topic: []byte("m/t"), Payload: []byte("x")})
			return d
		},
		Threads: [][]Op{
			{{"Get(m/t/u)", func(s any) string { return s.(*dsys).lookup("m/t/u") }},
				{"Get(m/+)", func(s any) string { return s.(*dsys).lookup("m/+") }}},
			{{"Get(m/t/v)", func(s any) string { return s.(*dsys).lookup("m/t/v") }},
				{"Get(q/r)", func(s any) string { return s.(*dsys).lookup("q/r") }}},
			{{"Set(m/v,w)", func(s any) string {
				return errs(s.(*dsys).st.Topics().Set(&packet.Publish{Header: &packet.Header{}, Topic: []byte("m/v"), Payload: []byte("w")}))
			}},
				{"Get(m/v/x)", func(s any) string { return s.(*dsys).lookup("m/v/x") }}},
		},
		Observe: func(s any) string { return "retained[" + s.(*dsys).retained() + "]" },
	})
	// (2b) a pool nobody has used yet
	out = append(out, &Scenario{
		Name: "idpool: fresh pool, Get || Get || Get;Put",
		New:  func() any { return wasp.VerifNewMIDPool(0, 4) },
		Threads: [][]Op{
			{{"Get", func(s any) string { return fmt.Sprint(s.(wasp.VerifMIDPool).Get()) }}},
			{{"Get", func(s any) string { return fmt.Sprint(s.(wasp.VerifMIDPool).Get()) }}},
			{{"Get", func(s any) string { return fmt.Sprint(s.(wasp.VerifMIDPool).Get()) }},
				{"Put(0)", func(s any) string { s.(wasp.VerifMIDPool).Put(0); return "" }}},
		},
		// which thread gets which identifier is free; what counts is that they are distinct and in range
		Observe: func(s any) string {
			var free []string
			for i := 0; i < 8; i++ {
				v := s.(wasp.VerifMIDPool).Get()
				if v < 0 || v > 4 {
					break
				}
				free = append(free, fmt.Sprint(v))
			}
			return fmt.Sprintf("%d still free", len(free))
		},
	})
	// (3c) two sweeps at once
	out = append(out, &Scenario{
		Name: "ack.Queue: [s/1,s/2 @T; s/3,s/4 @T+3s] Expire(T+2s) || Expire(T+6s) || Ack(s/3)",
		New: func() any {
			a := &ackSys{q: ack.NewQueue()}
			a.q.Insert("s", pub1(1), T0, a.cb("s/1"))
			a.q.Insert("s", pub1(2), T0, a.cb("s/2"))
			a.q.Insert("s", pub1(3), T0.Add(3*time.Second), a.cb("s/3"))
			a.q.Insert("s", pub1(4), T0.Add(3*time.Second), a.cb("s/4"))
			return a
		},
		Threads: [][]Op{
			{{"Expire(T+2s)", func(s any) string { s.(*ackSys).q.Expire(T0.Add(2 * time.Second)); return "" }}},
			{{"Expire(T+6s)", func(s any) string { s.(*ackSys).q.Expire(T0.Add(6 * time.Second)); return "" }}},
			{{"Ack(s/3)", func(s any) string { return errs(s.(*ackSys).q.Ack("s", puback(3))) }}},
		},
		Observe: func(s any) string {
			a := s.(*ackSys)
			a.q.Expire(T0.Add(1000 * time.Second))
			return sortedJoin(append([]string{}, a.log...))
		},
	})
	// (3d) acknowledging the only entry of a second while another exchange registers in that second
	out = append(out, &Scenario{
		Name: "ack.Queue: [s/1 @T] Ack(s/1) || Insert(s/2,T+0.2s) || Expire(T+5s)",
		New: func() any {
			a := &ackSys{q: ack.NewQueue()}
			a.q.Insert("s", pub1(1), T0, a.cb("s/1"))
			return a
		},
		Threads: [][]Op{
			{{"Ack(s/1)", func(s any) string { return errs(s.(*ackSys).q.Ack("s", puback(1))) }}},
			{{"Insert(s/2)", func(s any) string {
				return errs(s.(*ackSys).q.Insert("s", pub1(2), T0.Add(200*time.Millisecond), s.(*ackSys).cb("s/2")))
			}}},
			{{"Expire(T+5s)", func(s any) string { s.(*ackSys).q.Expire(T0.Add(5 * time.Second)); return "" }}},
		},
		Observe: func(s any) string {
			a := s.(*ackSys)
			a.q.Expire(T0.Add(1000 * time.Second))
			return sortedJoin(append([]string{}, a.log...))
		},
	})
	// (3d') the expiry callback re-registers the exchange, as the writer's retransmission does, while another registration
	// and an acknowledgement arrive: the sweep must be able to call back into the queue
	out = append(out, &Scenario{
		Name: "ack.Queue: [s/1 @T, re-registered by its expiry callback] Expire(T+5s) || Insert(s/2,T+0.2s) || Ack(s/2)",
		New: func() any {
			a := &ackSys{q: ack.NewQueue()}
			var again ack.Callback
			again = func(expired bool, stored, received packet.Packet) {
				a.mu.Lock()
				a.log = append(a.log, fmt.Sprintf("s/1:expired=%v", expired))
				n := len(a.log)
				a.mu.Unlock()
				if expired && n < 4 {
					a.q.Insert("s", pub1(1), T0.Add(8*time.Second), again)
				}
			}
			a.q.Insert("s", pub1(1), T0, again)
			return a
		},
		Threads: [][]Op{
			{{"Expire(T+5s)", func(s any) string { s.(*ackSys).q.Expire(T0.Add(5 * time.Second)); return "" }}},
			{{"Insert(s/2)", func(s any) string {
				return errs(s.(*ackSys).q.Insert("s", pub1(2), T0.Add(200*time.Millisecond), s.(*ackSys).cb("s/2")))
			}}},
			{{"Ack(s/2)", func(s any) string { return errs(s.(*ackSys).q.Ack("s", puback(2))) }}},
		},
		Observe: func(s any) string {
			a := s.(*ackSys)
			a.q.Expire(T0.Add(1000 * time.Second))
			return sortedJoin(append([]string{}, a.log...))
		},
	})
	// (3e) a wrong-type acknowledgement racing with the right one and with the sweep
	out = append(out, &Scenario{
		Name: "ack.Queue: [s/1 @T] Ack(s/1,wrong type) || Ack(s/1) || Expire(T+5s)",
		New: func() any {
			a := &ackSys{q: ack.NewQueue()}
			a.q.Insert("s", pub1(1), T0, a.cb("s/1"))
			return a
		},
		Threads: [][]Op{
			{{"WrongAck(s/1)", func(s any) string {
				return errs(s.(*ackSys).q.Ack("s", &packet.PubComp{Header: &packet.Header{}, MessageId: 1}))
			}}},
			{{"Ack(s/1)", func(s any) string { return errs(s.(*ackSys).q.Ack("s", puback(1))) }}},
			{{"Expire(T+5s)", func(s any) string { s.(*ackSys).q.Expire(T0.Add(5 * time.Second)); return "" }}},
		},
		Observe: func(s any) string {
			a := s.(*ackSys)
			a.q.Expire(T0.Add(1000 * time.Second))
			return sortedJoin(append([]string{}, a.log...))
		},
	})
	// (8) the message log under concurrent appends: the commit-log library's mutexes are shimmed too, so whatever the store
	// does outside them (encoding the message) interleaves with the other appenders
	out = append(out, &Scenario{
		Name: "messages.Log: Append(x) || Append(y) || Append(z)",
		New: func() any {
			dir, _ := os.MkdirTemp(os.Getenv("VERIF_SCRATCH"), "e4log")
			l, err := messages.New(dir)
			if err != nil {
				panic(err)
			}
			return &logSys{l: l, dir: dir}
		},
		Threads: [][]Op{
			{{"Append(x)", func(s any) string { return errs(s.(*logSys).l.Append(logMsg("x"))) }}},
			{{"Append(y)", func(s any) string { return errs(s.(*logSys).l.Append(logMsg("y"))) }}},
			{{"Append(z)", func(s any) string { return errs(s.(*logSys).l.Append(logMsg("z"))) }}},
		},
		Observe: func(s any) string {
			ls := s.(*logSys)
			var got []string
			for off := uint64(0); off < 3; off++ {
				p, err := ls.l.Get(off)
				if err != nil {
					got = append(got, "error")
					continue
				}
				got = append(got, string(p.Topic)+"="+string(p.Payload))
			}
			ls.l.Close()
			os.RemoveAll(ls.dir)
			return strings.Join(got, ",") // offsets 0,1,2 in order: which append took which offset is part of the outcome
		},
	})
	// (9) one message fanned out to two QoS 1 recipients while their acknowledgements arrive
	out = append(out, &Scenario{
		Name: "writer: deliver(m -> s1,s2 at QoS 1) || Ack(s1) || Ack(s2);deliver(n -> s1)",
		New: func() any {
			ws := &writerSys{local: wasp.NewState(1), q: ack.NewQueue(), conns: map[string]*sinkConn{}}
			ws.w = wasp.VerifNewWriter(1, nil, ws.local, ws.q, 1, 4)
			for _, id := range []string{"s1", "s2"} {
				ws.conns[id] = &sinkConn{}
				sess, _ := sessions.NewSession(id, "m", "tcp", ws.conns[id], &packet.Connect{Header: &packet.Header{}, ClientId: []byte(id), KeepaliveTimer: 60})
				ws.local.Create(id, sess)
			}
			return ws
		},
		Threads: [][]Op{
			{{"deliver(m)", func(s any) string {
				ws := s.(*writerSys)
				wasp.VerifWriterDeliver(context.Background(), ws.w, []string{"s1", "s2"}, []int32{1, 1}, &packet.Publish{Header: &packet.Header{}, Topic: []byte("m/t"), Payload: []byte("m")})
				return ""
			}}},
			// a fan-out is not one atomic step and need not be: the acknowledgements' own results are not part of
			// the outcome, only what is left when everything has been acknowledged
			{{"Ack(s1,last)", func(s any) string { s.(*writerSys).ackLast("s1"); return "" }}},
			{{"Ack(s2,last)", func(s any) string { s.(*writerSys).ackLast("s2"); return "" }},
				{"deliver(n)", func(s any) string {
					ws := s.(*writerSys)
					wasp.VerifWriterDeliver(context.Background(), ws.w, []string{"s1"}, []int32{1}, &packet.Publish{Header: &packet.Header{}, Topic: []byte("m/t"), Payload: []byte("n")})
					return ""
				}}},
		},
		// after acknowledging whatever is still in flight every identifier must be free again
		Observe: func(s any) string {
			ws := s.(*writerSys)
			for id := int32(1); id <= 4; id++ {
				ws.q.Ack("s1", puback(id))
				ws.q.Ack("s2", puback(id))
			}
			pool := wasp.VerifWriterPool(ws.w)
			var free []string
			for i := 0; i < 6; i++ {
				v := pool.Get()
				if v < 1 || v > 4 {
					break
				}
				free = append(free, fmt.Sprint(v))
			}
			return "free:" + sortedJoin(free)
		},
		SingleOutcome: true,
	})
	// (10) the client acknowledges a QoS 1 delivery as soon as it has read it: by then the broker must know the delivery
	out = append(out, &Scenario{
		Name: "writer: deliver(m -> s1 at QoS 1) || client s1 sends PUBACK once it has read the PUBLISH",
		New: func() any {
			ws := &writerSys{local: wasp.NewState(1), q: ack.NewQueue(), conns: map[string]*sinkConn{}}
			ws.w = wasp.VerifNewWriter(1, nil, ws.local, ws.q, 1, 4)
			ws.conns["s1"] = &sinkConn{}
			sess, _ := sessions.NewSession("s1", "m", "tcp", ws.conns["s1"], &packet.Connect{Header: &packet.Header{}, ClientId: []byte("s1"), KeepaliveTimer: 60})
			ws.local.Create("s1", sess)
			return ws
		},
		Threads: [][]Op{
			{{Name: "deliver(m)", Run: func(s any) string {
				ws := s.(*writerSys)
				wasp.VerifWriterDeliver(context.Background(), ws.w, []string{"s1"}, []int32{1}, &packet.Publish{Header: &packet.Header{}, Topic: []byte("m/t"), Payload: []byte("m")})
				return ""
			}}},
			{{Name: "PUBACK(what was read)", Run: func(s any) string { return s.(*writerSys).ackLast("s1") }}},
		},
		Guards: map[[2]int]func(s any) bool{{1, 0}: func(s any) bool { return s.(*writerSys).conns["s1"].last() != 0 }},
		// nothing is in flight any more: every identifier is free and a sweep far in the future has nothing to send again
		Observe: func(s any) string {
			ws := s.(*writerSys)
			before := ws.conns["s1"].writes()
			ws.q.Expire(time.Now().Add(time.Hour))
			resent := ws.conns["s1"].writes() - before
			pool := wasp.VerifWriterPool(ws.w)
			var free []string
			for i := 0; i < 6; i++ {
				v := pool.Get()
				if v < 1 || v > 4 {
					break
				}
				free = append(free, fmt.Sprint(v))
			}
			return fmt.Sprintf("resent-after-ack:%d free:%s", resent, sortedJoin(free))
		},
		SingleOutcome: true,
	})
	// (7) per-session filter list
	out = append(out, &Scenario{
		Name: "Session: AddTopic(a);AddTopic(b) || RemoveTopic(a) || GetTopics;AddTopic(c)",
		New:  func() any { return sessOf("s") },
		Threads: [][]Op{
			{{"AddTopic(a)", func(s any) string { s.(*sessions.Session).AddTopic([]byte("a")); return "" }},
				{"AddTopic(b)", func(s any) string { s.(*sessions.Session).AddTopic([]byte("b")); return "" }}},
			{{"RemoveTopic(a)", func(s any) string { s.(*sessions.Session).RemoveTopic([]byte("a")); return "" }}},
			{{"GetTopics", func(s any) string { return topicsOf(s.(*sessions.Session)) }},
				{"AddTopic(c)", func(s any) string { s.(*sessions.Session).AddTopic([]byte("c")); return "" }}},
		},
		Observe: func(s any) string { return topicsOf(s.(*sessions.Session)) },
	})
	// (7b) a list handed out by GetTopics is the caller's (session teardown walks it while the session may still change):
	// whatever the session does afterwards, the list must go on saying what it said when it was returned
	out = append(out, &Scenario{
		Name: "Session: [a,b] GetTopics(kept) || RemoveTopic(b);AddTopic(c) || AddTopic(d);RemoveTopic(a)",
		New: func() any {
			ss := &sessSnap{s: sessOf("s")}
			ss.s.AddTopic([]byte("a"))
			ss.s.AddTopic([]byte("b"))
			return ss
		},
		Threads: [][]Op{
			{{"GetTopics(kept)", func(s any) string {
				ss := s.(*sessSnap)
				ss.kept = ss.s.GetTopics()
				ss.said = renderTopics(ss.kept)
				return ss.said
			}}},
			{{"RemoveTopic(b)", func(s any) string { s.(*sessSnap).s.RemoveTopic([]byte("b")); return "" }},
				{"AddTopic(c)", func(s any) string { s.(*sessSnap).s.AddTopic([]byte("c")); return "" }}},
			{{"AddTopic(d)", func(s any) string { s.(*sessSnap).s.AddTopic([]byte("d")); return "" }},
				{"RemoveTopic(a)", func(s any) string { s.(*sessSnap).s.RemoveTopic([]byte("a")); return "" }}},
		},
		Observe: func(s any) string {
			ss := s.(*sessSnap)
			now := renderTopics(ss.kept)
			if ss.kept != nil && now != ss.said {
				return forbiddenMarker + ": the list GetTopics returned said [" + ss.said + "] and now says [" + now + "]; session " + topicsOf(ss.s)
			}
			return topicsOf(ss.s)
		},
	})
	return out
}

// forbiddenMarker in an outcome marks something no outcome may contain, whether or not the code produces it
// sequentially too (the sequential reference is the code itself: it cannot judge that).
const forbiddenMarker = "RETURNED-VALUE-CHANGED-LATER"

type sessSnap struct {
	s    *sessions.Session
	kept [][]byte
	said string
}

// renderTopics renders a list in its own order (unsorted: an overwritten slot shows).
func renderTopics(l [][]byte) string {
	var r []string
	for _, t := range l {
		r = append(r, string(t))
	}
	return strings.Join(r, ",")
}

type writerSys struct {
	w     wasp.Writer
	local wasp.LocalState
	q     ack.Queue
	conns map[string]*sinkConn
}

// ackLast acknowledges the identifier of the last delivery written to that session ("none" if nothing was written yet).
func (ws *writerSys) ackLast(session string) string {
	id := ws.conns[session].last()
	if id == 0 {
		return "none"
	}
	return errs(ws.q.Ack(session, puback(id)))
}

// sinkConn swallows what the writer sends.
type sinkConn struct {
	mu     sync.Mutex
	lastID int32
	n      int
}

func (c *sinkConn) writes() int { c.mu.Lock(); defer c.mu.Unlock(); return c.n }

func (c *sinkConn) Read(b []byte) (int, error) { select {} }
func (c *sinkConn) Write(b []byte) (int, error) {
	c.mu.Lock()
	c.n++
	c.mu.Unlock()
	// PUBLISH with a 1-byte remaining length (the scenario's packets are tiny): [hdr][len][tl hi][tl lo][topic][id hi][id lo]...
	if len(b) > 6 && b[0]>>4 == 3 && (b[0]>>1)&3 > 0 {
		tl := int(b[2])<<8 | int(b[3])
		if 4+tl+2 <= len(b) {
			c.mu.Lock()
			c.lastID = int32(b[4+tl])<<8 | int32(b[4+tl+1])
			c.mu.Unlock()
		}
	}
	return len(b), nil
}
func (c *sinkConn) last() int32                      { c.mu.Lock(); defer c.mu.Unlock(); return c.lastID }
func (c *sinkConn) Close() error                     { return nil }
func (c *sinkConn) SetDeadline(time.Time) error      { return nil }
func (c *sinkConn) SetReadDeadline(time.Time) error  { return nil }
func (c *sinkConn) SetWriteDeadline(time.Time) error { return nil }

type logSys struct {
	l   messages.Log
	dir string
}

func logMsg(v string) *packet.Publish {
	return &packet.Publish{Header: &packet.Header{}, Topic: []byte("t/" + v), Payload: []byte(strings.Repeat(v, 40))}
}

func idClass(v int32) string {
	if v < 0 || v > 4 {
		return "none"
	}
	return "id"
}

func walk(t subscriptions.Tree, topic string) string {
	var r []string
	t.Walk([]byte(topic), func(b []byte) {
		if len(b) > 0 {
			r = append(r, string(b))
		}
	})
	return sortedJoin(r)
}
func topicsOf(s *sessions.Session) string {
	var r []string
	for _, t := range s.GetTopics() {
		r = append(r, string(t))
	}
	return sortedJoin(r)
}

func TestC20Schedules(t *testing.T) {
	prop, phase := "C20", "C20/schedules"
	if v := os.Getenv("VERIF_E4_PROPERTY"); v != "" {
		prop, phase = v, v+"/schedules"
	}
	rep := vk.NewReport(prop, phase, "E4-schedx")
	bound := vk.Pick(2, 3)
	deadline := vk.Deadline(8*time.Minute, 40*time.Minute)
	scs := filtered(scenarios())
	var totalExec, totalPoints int64
	if rf := os.Getenv("VERIF_REPLAY"); rf != "" {
		replaySchedule(rep, scs, rf)
		rep.Write()
		return
	}
	for _, sc := range scs {
		if sc.RaceOnly {
			continue
		}
		allowed := sc.sequentialOutcomes()
		if sc.SeqStuck != nil {
			var names []string
			for _, o := range sc.SeqStuck {
				names = append(names, fmt.Sprintf("t%d:%s", o[0], sc.Threads[o[0]][o[1]].Name))
			}
			rep.Violate(vk.Violation{Sig: "c20-sequential-run-blocks:" + strings.SplitN(sc.Name, ":", 2)[0],
				Msg:    fmt.Sprintf("%s: the operations run one after the other on a single thread, in the order %v, did not return within %v: an operation waits for something only its own caller can release", sc.Name, names, seqStuckAfter),
				Replay: map[string]any{"scenario": sc.Name, "sequential_order": names}})
			continue
		}
		seen := map[string]int{}
		completed := -1
		for b := 0; b <= bound; b++ {
			st := sched.Explore(func() []func() {
				bodies, outcome := sc.bodies()
				cur = outcome
				return bodies
			}, b, func(e *sched.Exec) {
				out, calls := cur()
				viol := func(sig, msg string) {
					rep.Violate(vk.Violation{Sig: sig + ":" + strings.SplitN(sc.Name, ":", 2)[0], Msg: fmt.Sprintf("%s, schedule %v (trace %s): %s", sc.Name, e.Choices, strings.Join(e.Trace, " "), msg),
						Replay: map[string]any{"scenario": sc.Name, "choices": e.Choices, "bound": b}})
				}
				if len(e.Panics) > 0 {
					viol("c20-panic", e.Panics[0])
					return
				}
				if e.Err != "" {
					if strings.HasPrefix(e.Err, "replay divergence") {
						rep.HarnessError("%s: %s", sc.Name, e.Err)
					} else {
						viol("c20-"+strings.SplitN(e.Err, ":", 2)[0], e.Err)
					}
					return
				}
				seen[out]++
				if strings.Contains(out, forbiddenMarker) {
					// an absolute demand (not relative to what the code does sequentially): see forbiddenMarker
					viol("c20-returned-value-changed-later", fmt.Sprintf("outcome {%s}", out))
					return
				}
				orders, ok := allowed[out]
				if ok {
					ok = false
					for _, o := range orders {
						if respectsRealTime(o, calls) {
							ok = true
							break
						}
					}
				}
				if !ok {
					viol("c20-not-linearizable", fmt.Sprintf("outcome {%s} is produced by no sequential order of the operations consistent with their real-time order; sequential outcomes: %v", out, sortedKeys(allowed)))
				}
			}, func() bool { return time.Now().After(deadline) })
			totalExec += st.Executions
			totalPoints += st.Points
			if !st.Complete {
				rep.Cap("deadline in " + sc.Name)
				break
			}
			completed = b
		}
		rep.Extra["bound_completed: "+sc.Name] = completed
		rep.Extra["distinct_outcomes: "+sc.Name] = len(seen)
		rep.States += int64(len(seen))
		rep.Nontrivial += int64(len(seen))
		minOut := int64(2)
		if sc.SingleOutcome {
			minOut = 1
		}
		rep.Floor("outcomes:"+strings.SplitN(sc.Name, ":", 2)[0]+fmt.Sprint(len(sc.Name)), minOut, int64(len(seen)))
	}
	rep.Evaluations = totalExec
	rep.Paths = totalExec
	rep.Transitions = totalPoints
	rep.Outcomes = rep.States
	rep.Bounds["preemption_bound"] = bound
	var names []string
	for _, sc := range scs {
		names = append(names, sc.Name)
	}
	rep.Bounds["scenarios"] = names
	rep.Rule = "per scenario: every schedule of 3 threads at lock / lock-free-hash operations with at most b preemptions (b = 0..bound, iterative context bounding), each execution on a fresh instance of the real structure (sync and gotomic shimmed through a build overlay); oracle: (results, final observation) must be produced by a sequential order of the whole operations consistent with real-time order; states = distinct outcomes"
	rep.Sample(map[string]any{"scenario": scs[0].Name, "choices": []int{1, 0, 2}})
	if err := rep.Write(); err != nil {
		t.Fatal(err)
	}
}

var cur func() (string, []callRec)

// filtered keeps the scenarios whose name starts with one of the comma-separated prefixes in VERIF_E4_FILTER.
func filtered(in []*Scenario) []*Scenario {
	f := os.Getenv("VERIF_E4_FILTER")
	if f == "" {
		return in
	}
	var out []*Scenario
	for _, sc := range in {
		for _, p := range strings.Split(f, ",") {
			if strings.HasPrefix(sc.Name, p) {
				out = append(out, sc)
				break
			}
		}
	}
	return out
}

// TestC20Race runs the same thread bodies free on real goroutines (shims fall through to the real
// primitives); built with -race. Sampling, reported separately, never part of the exhaustive claim.
func TestC20Race(t *testing.T) {
	prop, phase := "C20", "C20/race-pass"
	if v := os.Getenv("VERIF_E4_PROPERTY"); v != "" {
		prop, phase = v, v+"/race-pass"
	}
	rep := vk.NewReport(prop, phase, "E4-free-running-race")
	iters := vk.Pick(3000, 20000)
	var runs int64
	for _, sc := range filtered(scenarios()) {
		allowed := sc.sequentialOutcomes()
		if sc.SeqStuck != nil {
			continue // reported by the schedules phase
		}
		for o := range allowed {
			if strings.Contains(o, forbiddenMarker) {
				rep.Violate(vk.Violation{Sig: "c20-returned-value-changed-later:" + strings.SplitN(sc.Name, ":", 2)[0], Msg: fmt.Sprintf("%s, even sequentially: outcome {%s}", sc.Name, o)})
			}
		}
		for i := 0; i < iters; i++ {
			bodies, outcome := sc.bodies()
			var wg sync.WaitGroup
			start := make(chan struct{})
			for _, b := range bodies {
				wg.Add(1)
				go func(b func()) { defer wg.Done(); <-start; b() }(b)
			}
			close(start)
			wg.Wait()
			runs++
			out, _ := outcome()
			if _, ok := allowed[out]; !ok {
				rep.Violate(vk.Violation{Sig: "c20-free-run-not-linearizable:" + strings.SplitN(sc.Name, ":", 2)[0], Msg: fmt.Sprintf("%s (free-running, iteration %d): outcome {%s} matches no sequential order", sc.Name, i, out)})
				break
			}
		}
	}
	rep.Evaluations = runs
	rep.Paths = runs
	rep.Transitions = runs
	rep.States = 1
	rep.Exhaustive = false
	rep.Extra["race_pass_iterations"] = runs
	rep.Rule = "free-running -race pass (sampling): each scenario's thread bodies on real goroutines, GORACE=halt_on_error; a data race aborts the process and is reported by ./check as a failed phase"
	rep.Sample("race pass: " + fmt.Sprint(iters) + " iterations per scenario")
	if err := rep.Write(); err != nil {
		t.Fatal(err)
	}
}

// replaySchedule re-executes one recorded schedule five times without search; observations must be identical.
func replaySchedule(rep *vk.Report, scs []*Scenario, file string) {
	raw, err := os.ReadFile(file)
	if err != nil {
		rep.HarnessError("%v", err)
		return
	}
	var body struct {
		Replay struct {
			Scenario string `json:"scenario"`
			Choices  []int  `json:"choices"`
		} `json:"replay"`
	}
	json.Unmarshal(raw, &body)
	for _, sc := range scs {
		if sc.Name != body.Replay.Scenario {
			continue
		}
		allowed := sc.sequentialOutcomes()
		if sc.SeqStuck != nil {
			rep.Violate(vk.Violation{Sig: "c20-sequential-run-blocks:" + strings.SplitN(sc.Name, ":", 2)[0], Msg: sc.Name + ": the operations run one after the other on a single thread do not return"})
			continue
		}
		first := ""
		for k := 0; k < 5; k++ {
			bodies, outcome := sc.bodies()
			e := sched.Run(bodies, body.Replay.Choices)
			out, calls := outcome()
			verdict := "linearizable"
			ok := false
			for _, o := range allowed[out] {
				if respectsRealTime(o, calls) {
					ok = true
				}
			}
			if len(e.Panics) > 0 {
				verdict = "panic: " + e.Panics[0]
			} else if e.Err != "" {
				verdict = e.Err
			} else if !ok {
				verdict = "not linearizable"
			}
			obs := out + " | " + verdict + " | " + strings.Join(e.Trace, " ")
			if k == 0 {
				first = obs
				fmt.Printf("replay %s %v -> %s\n", sc.Name, body.Replay.Choices, obs)
				if verdict != "linearizable" {
					rep.Violate(vk.Violation{Sig: "c20-replay", Msg: obs, Replay: map[string]any{"scenario": sc.Name, "choices": body.Replay.Choices}})
				}
			} else if obs != first {
				rep.HarnessError("replay diverged: %q vs %q", obs, first)
			}
		}
		rep.Evaluations, rep.Paths, rep.States, rep.Transitions = 5, 5, 1, 5
	}
}
