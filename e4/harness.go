// Package e4 holds the schedx harnesses (built with the sync/gotomic overlay).
package e4

import (
	"fmt"
	"runtime"
	"sort"
	"strings"
	"time"

	"verif/sched"
)

// An Op is one call on the shared structure. Run performs it on the given instance and returns a
// canonical rendering of its result.
type Op struct {
	Name string
	Run  func(sys any) string
}

// Scenario: threads of operations on a fresh instance; Observe renders the final state (after all
// threads finished; it may run further calls, e.g. a trailing sweep).
type Scenario struct {
	Name    string
	New     func() any
	Threads [][]Op
	Observe func(sys any) string
	// RaceOnly: no shimmed synchronisation inside (one schedule): only run in the free-running race pass
	RaceOnly bool
	// SingleOutcome: the observation is deliberately coarse (one legal outcome); the >= 2 outcomes vacuity floor does not apply
	SingleOutcome bool
	// Guards[{thread, index}], when set, makes that operation wait until it holds (a client that reacts to something it
	// received): the thread is blocked at a scheduling point until then, and sequential orders in which it does not hold
	// at the operation's turn are infeasible.
	Guards map[[2]int]func(sys any) bool
	// SeqStuck: set by sequentialOutcomes to the order of whole operations that did not return (see seqStuckAfter)
	SeqStuck [][2]int
	// Accept lists outcomes that the sequential reference does not produce but the property allows (rare).
}

type callRec struct {
	thread, idx int
	inv, ret    int
	result      string
}

// sequentialOutcomes computes, by brute force, every (results, final observation) that some
// interleaving of WHOLE operations (respecting per-thread order) produces on the real structure run
// sequentially: the linearizability reference.
// seqStuckAfter: a sequential run of a handful of in-memory operations takes microseconds; one that has not returned
// after this long is blocked for good (the goroutine is left behind, the scenario is reported and abandoned).
const seqStuckAfter = 20 * time.Second

func (sc *Scenario) sequentialOutcomes() map[string][][][2]int {
	out := map[string][][][2]int{}
	n := len(sc.Threads)
	pos := make([]int, n)
	var order [][2]int
	var rec func()
	rec = func() {
		done := true
		for t := 0; t < n; t++ {
			if pos[t] < len(sc.Threads[t]) {
				done = false
				order = append(order, [2]int{t, pos[t]})
				pos[t]++
				rec()
				pos[t]--
				order = order[:len(order)-1]
			}
		}
		if done && sc.SeqStuck == nil {
			// on its own goroutine, watched: whole operations run one after the other on one thread can still block for good
			// (an operation that waits for a lock its own caller holds), and that must end the scenario, not hang the run
			type seqRes struct {
				key string
				ok  bool
			}
			ch := make(chan seqRes, 1)
			ord := append([][2]int{}, order...)
			go func() {
				sys := sc.New()
				res := make([][]string, n)
				for _, o := range ord {
					op := sc.Threads[o[0]][o[1]]
					if g := sc.Guards[o]; g != nil && !g(sys) {
						ch <- seqRes{} // this operation could not have run at that point: not a sequential behaviour
						return
					}
					res[o[0]] = append(res[o[0]], op.Run(sys))
				}
				ch <- seqRes{renderOutcome(res, sc.Observe(sys)), true}
			}()
			select {
			case r := <-ch:
				if r.ok {
					out[r.key] = append(out[r.key], ord)
				}
			case <-time.After(seqStuckAfter):
				sc.SeqStuck = ord
			}
		}
	}
	rec()
	return out
}

func renderOutcome(res [][]string, final string) string {
	var b strings.Builder
	for t, r := range res {
		fmt.Fprintf(&b, "t%d%v ", t, r)
	}
	b.WriteString("=> " + final)
	return b.String()
}

// bodies builds the thread bodies for one execution and returns a function rendering its outcome.
func (sc *Scenario) bodies() (b []func(), outcome func() (string, []callRec)) {
	sys := sc.New()
	res := make([][]string, len(sc.Threads))
	calls := make([][]callRec, len(sc.Threads)) // per thread: the free-running pass must not race in the harness itself
	for t := range sc.Threads {
		t := t
		b = append(b, func() {
			for i, op := range sc.Threads[t] {
				if g := sc.Guards[[2]int{t, i}]; g != nil {
					if e := sched.Current(); e != nil {
						e.Point("await "+op.Name, func() bool { return g(sys) })
					} else {
						for !g(sys) {
							runtime.Gosched()
						}
					}
				}
				inv := 0
				if e := sched.Current(); e != nil {
					inv = e.Step()
				}
				r := op.Run(sys)
				ret := inv
				if e := sched.Current(); e != nil {
					ret = e.Step()
				}
				res[t] = append(res[t], r)
				calls[t] = append(calls[t], callRec{t, i, inv, ret, r})
			}
		})
	}
	return b, func() (string, []callRec) {
		var all []callRec
		for _, c := range calls {
			all = append(all, c...)
		}
		return renderOutcome(res, sc.Observe(sys)), all
	}
}

// respectsRealTime: the witness order must not put b before a when a returned before b was invoked.
func respectsRealTime(order [][2]int, calls []callRec) bool {
	idx := map[[2]int]int{}
	for i, o := range order {
		idx[o] = i
	}
	for _, a := range calls {
		for _, b := range calls {
			if a.ret < b.inv && idx[[2]int{a.thread, a.idx}] > idx[[2]int{b.thread, b.idx}] {
				return false
			}
		}
	}
	return true
}

func sortedKeys(m map[string][][][2]int) []string {
	var out []string
	for k := range m {
		out = append(out, k)
	}
	sort.Strings(out)
	return out
}
