#!/usr/bin/env python3
"""Generates the E4 build overlay from /repo's CURRENT working tree: every target file is copied with
its "sync" import rewritten to verif/vsync and gotomic to verif/vgotomic. Fails loudly when a target no
longer matches (so that unshimmed code is never explored by mistake)."""
import json, os, re, sys
out = sys.argv[1]
os.makedirs(out, exist_ok=True)
TARGETS = {
    "wasp/state.go": ("sync", "gotomic"),
    "wasp/idpool.go": ("sync",),
    "wasp/writer.go": ("sync",),
    "wasp/ack/queue.go": ("gotomic",),
    "wasp/ack/export_verif.go": ("gotomic",),
    "wasp/expiration/pqueue.go": ("sync",),
    "wasp/expiration/bucket.go": ("sync",),
    "wasp/expiration/skiplist.go": ("sync",),
    "wasp/sessions/session.go": ("sync",),
    "wasp/distributed/sessions.go": ("sync",),
    "wasp/distributed/subscriptions.go": ("sync",),
    "wasp/distributed/topics.go": ("sync",),
    "topics/tree.go": ("sync",),
    "subscriptions/node.go": ("sync",),
}
replace = {}
for rel, kinds in TARGETS.items():
    src = os.path.join("/repo", rel)
    s = open(src).read()
    if "sync" in kinds:
        s, n = re.subn(r'^(\s*)"sync"\s*$', r'\1sync "verif/vsync"', s, flags=re.M)
        if n == 0 and not re.search(r'\bsync\.', s):
            pass  # the file no longer uses any primitive of package sync: nothing to shim (its accesses are then seen by the race pass only)
        elif n != 1:
            print("overlay: %s no longer imports \"sync\" on its own line (%d matches)" % (rel, n), file=sys.stderr); sys.exit(2)
    if "sync" not in kinds:
        # a target that did not use package sync may start to: its locks must be scheduling points too, or a thread blocked on
        # a real lock would never reach the scheduler again
        s, _ = re.subn(r'^(\s*)"sync"\s*$', r'\1sync "verif/vsync"', s, flags=re.M)
    if "gotomic" in kinds:
        s, n = re.subn(r'^(\s*)"github.com/zond/gotomic"\s*$', r'\1gotomic "verif/vgotomic"', s, flags=re.M)
        if n != 1:
            print("overlay: %s no longer imports gotomic (%d matches)" % (rel, n), file=sys.stderr); sys.exit(2)
    dst = os.path.join(out, rel.replace("/", "__"))
    open(dst, "w").write(s)
    replace[src] = dst
# the message log: the commit-log library cannot be overlaid (module cache), so the store opens it through a proxy whose
# write path takes a shimmed lock first: what the store does before handing bytes to the library (encoding the message)
# then interleaves with other appenders, exactly as it does around the library's own mutex
rel = "wasp/messages/store.go"
src = os.path.join("/repo", rel)
s = open(src).read()
s, n1 = re.subn(r'\bcommitlog\.Open\(', 'vcommitlog.Open(', s)
s, n2 = re.subn(r'^(\s*)"github.com/vx-labs/commitlog"\s*$', r'\1"github.com/vx-labs/commitlog"\n\1vcommitlog "verif/vcommitlog"', s, flags=re.M)
if n1 != 1 or n2 != 1:
    print("overlay: %s no longer opens the commit log the way the proxy expects (%d, %d)" % (rel, n1, n2), file=sys.stderr); sys.exit(2)
dst = os.path.join(out, rel.replace("/", "__"))
open(dst, "w").write(s)
replace[src] = dst
# any other file of the target packages that uses sync primitives on shared structures would escape the shim: report
json.dump({"Replace": replace}, open(os.path.join(out, "overlay.json"), "w"), indent=1)
print("overlay: %d files" % len(replace), file=sys.stderr)
