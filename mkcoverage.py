#!/usr/bin/env python3
"""Prints a markdown table of what the last quick run of every check covered (from evidence/*.json); used for DESIGN.md 9.8."""
import json, glob
print('| property | phase | engine | executions / paths | states | transitions | exhaustive | s |')
print('|---|---|---|---|---|---|---|---|')
for f in sorted(glob.glob('/verif/evidence/C*.json')):
    e = json.load(open(f))
    for ph in e['coverage']['phases']:
        print('| %s | %s | %s | %s | %s | %s | %s | %s |' % (e['property_id'], ph['phase'].split('/', 1)[1], ph['engine'], ph['paths'], ph['states'], ph['transitions'], ph['exhaustive'], round(ph.get('wall_s') or 0, 1)))
