// Package dsync is what engine E2 makes the repository's packages import instead of "sync" (through a build overlay):
// the same API, but a goroutine waiting for a Mutex or RWMutex is blocked on a channel. testing/synctest does not
// regard a goroutine blocked on a sync.Mutex as durably blocked, so virtual time could never advance while any broker
// goroutine waited for a lock held by a goroutine that the harness keeps waiting (a write that returns late, a slow log).
// With channel-based locks such a wait is durable and the bubble's clock moves on. Semantics are those of sync: mutual
// exclusion, no reentrancy, unlocking an unlocked mutex panics. (Fairness and performance are not reproduced.)
package dsync

import "sync"

type (
	WaitGroup = sync.WaitGroup
	Once      = sync.Once
	Pool      = sync.Pool
	Map       = sync.Map
	Locker    = sync.Locker
)

// Mutex: a one-slot channel; holding the lock = the slot is full.
type Mutex struct {
	init sync.Once
	ch   chan struct{}
}

func (m *Mutex) slot() chan struct{} {
	m.init.Do(func() { m.ch = make(chan struct{}, 1) })
	return m.ch
}
func (m *Mutex) Lock() { m.slot() <- struct{}{} }
func (m *Mutex) TryLock() bool {
	select {
	case m.slot() <- struct{}{}:
		return true
	default:
		return false
	}
}
func (m *Mutex) Unlock() {
	select {
	case <-m.slot():
	default:
		panic("dsync: unlock of unlocked mutex")
	}
}

// RWMutex: readers share the writer lock through a counter (readers-preference; the repository's code does not depend
// on writer priority).
type RWMutex struct {
	w       Mutex
	r       Mutex // guards readers
	readers int
}

func (m *RWMutex) Lock()   { m.w.Lock() }
func (m *RWMutex) Unlock() { m.w.Unlock() }
func (m *RWMutex) RLock() {
	m.r.Lock()
	m.readers++
	if m.readers == 1 {
		m.w.Lock()
	}
	m.r.Unlock()
}
func (m *RWMutex) RUnlock() {
	m.r.Lock()
	m.readers--
	if m.readers < 0 {
		m.r.Unlock()
		panic("dsync: RUnlock of unlocked RWMutex")
	}
	if m.readers == 0 {
		m.w.Unlock()
	}
	m.r.Unlock()
}
func (m *RWMutex) RLocker() Locker { return (*rlocker)(m) }

type rlocker RWMutex

func (r *rlocker) Lock()   { (*RWMutex)(r).RLock() }
func (r *rlocker) Unlock() { (*RWMutex)(r).RUnlock() }
