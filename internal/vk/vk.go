// Package vk holds what every engine shares: phase reports (merged into evidence by ./check),
// violation records with replay artefacts, tier/seed handling, concurrent hash sets used to count
// distinct states/outcomes, and the subprocess shard runner.
package vk

import (
	"encoding/json"
	"fmt"
	"hash/fnv"
	"os"
	"os/exec"
	"path/filepath"
	"runtime"
	"sort"
	"strconv"
	"strings"
	"sync"
	"sync/atomic"
	"time"
)

// Violation is one property violation found on the implementation.
type Violation struct {
	// Sig is a short stable signature used to de-duplicate violations.
	Sig string `json:"sig"`
	// KF names the known-finding whose *predicted wrong behaviour* this observation equals exactly
	// (empty when it matches none). ./check only downgrades a violation to KNOWN-FINDING when KF is
	// listed with status "known" in known_findings.json.
	KF     string `json:"kf,omitempty"`
	Msg    string `json:"msg"`
	Replay any    `json:"replay,omitempty"`
}

// Report is what one phase of one check writes.
type Report struct {
	Property        string              `json:"property"`
	Phase           string              `json:"phase"`
	Engine          string              `json:"engine"`
	Tier            string              `json:"tier"`
	Evaluations     int64               `json:"evaluations"`
	States          int64               `json:"states"`
	Transitions     int64               `json:"transitions"`
	Paths           int64               `json:"paths"`
	Nontrivial      int64               `json:"nontrivial"`
	Outcomes        int64               `json:"outcomes"`
	Exhaustive      bool                `json:"exhaustive"`
	CapsHit         []string            `json:"caps_hit,omitempty"`
	Bounds          map[string]any      `json:"bounds,omitempty"`
	Rule            string              `json:"rule,omitempty"`
	Samples         []any               `json:"samples,omitempty"`
	Floors          map[string][2]int64 `json:"floors,omitempty"` // name -> [required minimum, measured]
	Extra           map[string]any      `json:"extra,omitempty"`
	Violations      []Violation         `json:"violations,omitempty"`
	ViolationsTotal int64               `json:"violations_total"`
	HarnessErrors   []string            `json:"harness_errors,omitempty"`
	WallS           float64             `json:"wall_s"`

	mu    sync.Mutex
	sigs  map[string]int
	start time.Time
}

func NewReport(property, phase, engine string) *Report {
	return &Report{Property: property, Phase: phase, Engine: engine, Tier: Tier(), Exhaustive: true,
		Bounds: map[string]any{}, Floors: map[string][2]int64{}, Extra: map[string]any{}, sigs: map[string]int{}, start: time.Now()}
}

// MaxViolationsPerSig bounds how many violations with one signature are stored (all are counted).
const maxStored = 40

// Violate records a violation (thread-safe). At most one record per signature is stored.
func (r *Report) Violate(v Violation) {
	r.mu.Lock()
	defer r.mu.Unlock()
	r.ViolationsTotal++
	// a violation excused by a known finding never stands in for an unexcused one with the same signature
	key := v.Sig + "|" + v.KF
	r.sigs[key]++
	if r.sigs[key] > 1 || len(r.Violations) >= maxStored {
		return
	}
	r.Violations = append(r.Violations, v)
}

func (r *Report) HarnessError(format string, a ...any) {
	r.mu.Lock()
	defer r.mu.Unlock()
	if len(r.HarnessErrors) < 20 {
		r.HarnessErrors = append(r.HarnessErrors, fmt.Sprintf(format, a...))
	}
}

func (r *Report) Cap(name string) {
	r.mu.Lock()
	defer r.mu.Unlock()
	r.Exhaustive = false
	for _, c := range r.CapsHit {
		if c == name {
			return
		}
	}
	r.CapsHit = append(r.CapsHit, name)
}

func (r *Report) Sample(s any) {
	r.mu.Lock()
	defer r.mu.Unlock()
	if len(r.Samples) < 6 {
		r.Samples = append(r.Samples, s)
	}
}

// Floor records a vacuity guard: measured must be >= min or ./check reports a harness error.
func (r *Report) Floor(name string, min, measured int64) {
	r.mu.Lock()
	defer r.mu.Unlock()
	r.Floors[name] = [2]int64{min, measured}
}

// Write stores the report in $VERIF_OUT (or prints it when unset).
func (r *Report) Write() error {
	r.WallS = time.Since(r.start).Seconds()
	b, err := json.MarshalIndent(r, "", " ")
	if err != nil {
		return err
	}
	dir := os.Getenv("VERIF_OUT")
	if dir == "" {
		fmt.Println(string(b))
		return nil
	}
	name := strings.ReplaceAll(r.Phase, "/", "_")
	if sh := os.Getenv("VERIF_SHARD"); sh != "" {
		name += ".shard" + strings.ReplaceAll(sh, "/", "of")
	}
	return os.WriteFile(filepath.Join(dir, name+".report.json"), b, 0o644)
}

func Tier() string {
	if t := os.Getenv("VERIF_TIER"); t == "thorough" {
		return "thorough"
	}
	return "quick"
}
func Thorough() bool { return Tier() == "thorough" }

func Seed() int64 {
	n, _ := strconv.ParseInt(os.Getenv("VERIF_SEED"), 10, 64)
	return n
}

// Pick returns q for the quick tier and t for the thorough tier.
func Pick[T any](q, t T) T {
	if Thorough() {
		return t
	}
	return q
}

// Workers is the number of parallel workers to use.
func Workers() int {
	if s := os.Getenv("VERIF_WORKERS"); s != "" {
		if n, err := strconv.Atoi(s); err == nil && n > 0 {
			return n
		}
	}
	n := runtime.NumCPU()
	if n > 16 {
		n = 16
	}
	return n
}

// Deadline returns the wall-clock budget after which a phase stops with exhaustive=false (never a violation).
func Deadline(quick, thorough time.Duration) time.Time {
	d := Pick(quick, thorough)
	if s := os.Getenv("VERIF_BUDGET_S"); s != "" {
		if n, err := strconv.Atoi(s); err == nil {
			d = time.Duration(n) * time.Second
		}
	}
	return time.Now().Add(d)
}

// Hash64 hashes a string.
func Hash64(s string) uint64 {
	h := fnv.New64a()
	h.Write([]byte(s))
	return h.Sum64()
}

// Set is a concurrent set of 64-bit hashes.
type Set struct {
	shards [64]struct {
		mu sync.Mutex
		m  map[uint64]struct{}
	}
	n atomic.Int64
}

func NewSet() *Set {
	s := &Set{}
	for i := range s.shards {
		s.shards[i].m = map[uint64]struct{}{}
	}
	return s
}

// Add returns true when h was not present.
func (s *Set) Add(h uint64) bool {
	sh := &s.shards[h%64]
	sh.mu.Lock()
	_, ok := sh.m[h]
	if !ok {
		sh.m[h] = struct{}{}
	}
	sh.mu.Unlock()
	if !ok {
		s.n.Add(1)
	}
	return !ok
}
func (s *Set) AddString(x string) bool { return s.Add(Hash64(x)) }
func (s *Set) Len() int64              { return s.n.Load() }
func (s *Set) Has(h uint64) bool {
	sh := &s.shards[h%64]
	sh.mu.Lock()
	_, ok := sh.m[h]
	sh.mu.Unlock()
	return ok
}
func (s *Set) Dump() []uint64 {
	out := make([]uint64, 0, s.Len())
	for i := range s.shards {
		for h := range s.shards[i].m {
			out = append(out, h)
		}
	}
	return out
}

// ParallelFor runs f(i) for i in [0,n) on Workers() goroutines.
func ParallelFor(n int, f func(i int)) {
	w := Workers()
	if w > n {
		w = n
	}
	var next atomic.Int64
	var wg sync.WaitGroup
	for k := 0; k < w; k++ {
		wg.Add(1)
		go func() {
			defer wg.Done()
			for {
				i := int(next.Add(1) - 1)
				if i >= n {
					return
				}
				f(i)
			}
		}()
	}
	wg.Wait()
}

// Shard describes this process's slice of a sharded phase.
type Shard struct{ I, N int }

// ShardFromEnv returns the shard of this process (0/1 when not sharded) and whether it is a child.
func ShardFromEnv() (Shard, bool) {
	s := os.Getenv("VERIF_SHARD")
	if s == "" {
		return Shard{0, 1}, false
	}
	p := strings.Split(s, "/")
	i, _ := strconv.Atoi(p[0])
	n, _ := strconv.Atoi(p[1])
	return Shard{i, n}, true
}
func (s Shard) Mine(k int) bool { return k%s.N == s.I }

// RunShards re-executes the current test binary n times with VERIF_SHARD=i/n for the given test
// name and merges the children's reports for `phase` into one report. Children write hash dumps
// (states/outcomes) next to their reports so that distinct counts are exact across shards.
func RunShards(testName string, n int, extraEnv ...string) error {
	var wg sync.WaitGroup
	errs := make([]error, n)
	for i := 0; i < n; i++ {
		wg.Add(1)
		go func(i int) {
			defer wg.Done()
			cmd := exec.Command(os.Args[0], "-test.run", "^"+testName+"$", "-test.timeout", "0", "-test.v")
			cmd.Env = append(os.Environ(), fmt.Sprintf("VERIF_SHARD=%d/%d", i, n))
			cmd.Env = append(cmd.Env, extraEnv...)
			out, err := cmd.CombinedOutput()
			if err != nil {
				tail := string(out)
				if len(tail) > 4000 {
					tail = tail[len(tail)-4000:]
				}
				errs[i] = fmt.Errorf("shard %d/%d: %v\n%s", i, n, err, tail)
			}
		}(i)
	}
	wg.Wait()
	for _, e := range errs {
		if e != nil {
			return e
		}
	}
	return nil
}

// WriteHashes stores a set next to the reports for cross-shard union.
func WriteHashes(kind, phase string, s *Set) {
	dir := os.Getenv("VERIF_OUT")
	if dir == "" {
		return
	}
	hs := s.Dump()
	b := make([]byte, 8*len(hs))
	for i, h := range hs {
		for k := 0; k < 8; k++ {
			b[8*i+k] = byte(h >> (8 * k))
		}
	}
	name := strings.ReplaceAll(phase, "/", "_")
	sh := strings.ReplaceAll(os.Getenv("VERIF_SHARD"), "/", "of")
	os.WriteFile(filepath.Join(dir, fmt.Sprintf("%s.%s.shard%s.hashes", name, kind, sh)), b, 0o644)
}

// MergeShardReports merges the per-shard reports of a phase into a single report (and removes them).
func MergeShardReports(property, phase, engine string) (*Report, error) {
	dir := os.Getenv("VERIF_OUT")
	if dir == "" {
		return nil, fmt.Errorf("VERIF_OUT unset")
	}
	name := strings.ReplaceAll(phase, "/", "_")
	files, _ := filepath.Glob(filepath.Join(dir, name+".shard*.report.json"))
	sort.Strings(files)
	if len(files) == 0 {
		return nil, fmt.Errorf("no shard reports for %s", phase)
	}
	m := NewReport(property, phase, engine)
	for _, f := range files {
		b, err := os.ReadFile(f)
		if err != nil {
			return nil, err
		}
		var r Report
		if err := json.Unmarshal(b, &r); err != nil {
			return nil, err
		}
		m.Evaluations += r.Evaluations
		m.States += r.States
		m.Transitions += r.Transitions
		m.Paths += r.Paths
		m.Nontrivial += r.Nontrivial
		m.Outcomes += r.Outcomes
		m.ViolationsTotal += r.ViolationsTotal
		if !r.Exhaustive {
			m.Exhaustive = false
		}
		for _, c := range r.CapsHit {
			m.Cap(c)
		}
		for k, v := range r.Bounds {
			m.Bounds[k] = v
		}
		for k, v := range r.Extra {
			if f, ok := v.(float64); ok {
				if old, ok := m.Extra[k].(float64); ok {
					m.Extra[k] = old + f
				} else {
					m.Extra[k] = f
				}
			} else {
				m.Extra[k] = v
			}
		}
		for k, v := range r.Floors {
			old := m.Floors[k]
			m.Floors[k] = [2]int64{v[0], old[1] + v[1]}
		}
		if m.Rule == "" {
			m.Rule = r.Rule
		}
		for _, s := range r.Samples {
			if len(m.Samples) < 6 {
				m.Samples = append(m.Samples, s)
			}
		}
		for _, v := range r.Violations {
			key := v.Sig + "|" + v.KF
			m.sigs[key]++
			if m.sigs[key] == 1 && len(m.Violations) < maxStored {
				m.Violations = append(m.Violations, v)
			}
		}
		m.HarnessErrors = append(m.HarnessErrors, r.HarnessErrors...)
		os.Remove(f)
	}
	// exact distinct counts where hash dumps exist
	for _, kind := range []string{"states", "outcomes", "nontrivial"} {
		hf, _ := filepath.Glob(filepath.Join(dir, fmt.Sprintf("%s.%s.shard*.hashes", name, kind)))
		if len(hf) == 0 {
			continue
		}
		u := map[uint64]struct{}{}
		for _, f := range hf {
			b, _ := os.ReadFile(f)
			for i := 0; i+8 <= len(b); i += 8 {
				var h uint64
				for k := 0; k < 8; k++ {
					h |= uint64(b[i+k]) << (8 * k)
				}
				u[h] = struct{}{}
			}
			os.Remove(f)
		}
		switch kind {
		case "states":
			m.States = int64(len(u))
		case "outcomes":
			m.Outcomes = int64(len(u))
		case "nontrivial":
			m.Nontrivial = int64(len(u))
		}
	}
	return m, nil
}

// Recover runs f and returns the panic value (nil when f returned normally).
func Recover(f func()) (p any) {
	defer func() {
		if r := recover(); r != nil {
			p = r
		}
	}()
	f()
	return nil
}
