#!/bin/sh
# seedbatch.sh <dir>... : evaluates seeds sequentially and prints one line each
for s in "$@"; do
  python3 /verif/seedeval.py $s ${SEED_ARGS} 2>&1 | python3 -c "
import json,sys
try:
    r=json.load(sys.stdin)
    print(r['seed'], 'confirmed=',r.get('confirmed'), {k:(v['detected'],v['exit'],v['wall_s'],(v['first_violation'] or v['tail'])[:200]) for k,v in r.get('checks',{}).items()}, {k:v for k,v in r.items() if k in ('error','demo_passes_without_change','existing_tests_pass','demo_fails_with_change','build_ok') and not v})
except Exception as e:
    print('EVAL-ERROR', e)
"
done
