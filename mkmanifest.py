#!/usr/bin/env python3
"""Regenerates MANIFEST.json from phases.py (single source of truth for what is claimed)."""
import json, os, subprocess
ROOT = os.path.dirname(os.path.abspath(__file__))
import sys
sys.path.insert(0, ROOT)
from phases import PHASES, LEVEL, META, ENGINES

props = [json.loads(l) for l in open(os.path.join(ROOT, "properties.jsonl"))]
hooks = []
try:
    out = subprocess.run(["git", "-C", "/repo", "log", "--format=%H %s"], capture_output=True, text=True).stdout
    hooks = [l.split()[0] for l in out.splitlines() if " verif-hook:" in l or " hook:" in l]
except Exception:
    pass
checks, na = [], []
for p in props:
    pid = p["id"]
    if pid in PHASES and PHASES[pid]:
        m = META[pid]
        checks.append({
            "property_id": pid,
            "quick_cmd": "./check %s quick" % pid,
            "thorough_cmd": "./check %s thorough" % pid,
            "evidence_file": "/verif/evidence/%s.json" % pid,
            "replay_cmd_template": "./check %s quick --replay {path}" % pid,
            "engine": m["engine"],
            "level_claimed": {"category": LEVEL.get(pid, "model_checking"), "text": m["text"], "design_ref": m.get("design_ref", "DESIGN.md §6 " + pid)},
            "level_note": m["note"],
            "technique": m["technique"],
        })
    else:
        na.append({"property_id": pid, "reason": META.get(pid, {}).get("na", "check not built yet in this round; planned engine in DESIGN.md §6 " + pid)})
man = {
    "version": 1,
    "setup_cmd": "./setup.sh",
    "hooks": {
        "guard": "verif",
        "enable": "go1.26.8 test -c -tags verif (harness module /verif with replace github.com/vx-labs/wasp/v4 => /repo; GOFLAGS=-mod=mod GOPROXY=off GOTOOLCHAIN=local)",
        "baseline_off_cmd": "cd /repo && go test -vet=off -count=1 ./...",
        "source_commits": hooks,
        "add_only": True,
    },
    "engines": ENGINES,
    "checks": checks,
    "not_applicable": na,
    "notes": "All checks explore the real Go code exhaustively inside stated bounds (explicit-state BFS/DFS over operations, environment events, crash points or schedules). See DESIGN.md.",
}
json.dump(man, open(os.path.join(ROOT, "MANIFEST.json"), "w"), indent=1)
print("checks:", [c["property_id"] for c in checks], "na:", [n["property_id"] for n in na])
