#!/usr/bin/env python3
"""seedregress.py [pattern]: re-runs the quick check of its own property against every archived seeded defect
(/verif/seeded/<id>/patch.diff applied to /repo, check, git checkout), without re-confirming the seed. Updates
check_results in the seed's meta.json and prints one line per seed. /repo must be clean; nothing else may use it meanwhile."""
import glob, json, os, subprocess, sys, time
pat = sys.argv[1] if len(sys.argv) > 1 else ""
if subprocess.run(["git", "-C", "/repo", "status", "--porcelain"], capture_output=True, text=True).stdout.strip():
    print("/repo is not clean"); sys.exit(2)
missed = []
for d in sorted(glob.glob("/verif/seeded/*")):
    name = os.path.basename(d)
    if pat and pat not in name:
        continue
    mp = os.path.join(d, "meta.json")
    if not os.path.exists(mp):
        continue
    m = json.load(open(mp))
    if str(m.get("status", "")).startswith(("void", "not reachable")) or m.get("void") or m.get("status_after_repository_fix"):
        print(name, "skipped:", m.get("status")); continue
    prop = m.get("property") or name.split("-")[0]
    r = subprocess.run(["git", "-C", "/repo", "apply", os.path.join(d, "patch.diff")], capture_output=True, text=True)
    if r.returncode != 0:
        print(name, "patch does not apply:", r.stderr.strip()[:120]); continue
    t0 = time.time()
    try:
        c = subprocess.run(["./check", prop, "quick"], cwd="/verif", capture_output=True, text=True, timeout=3600)
        out = c.stdout + c.stderr
        code = c.returncode
    except subprocess.TimeoutExpired:
        out, code = "timeout", 2
    finally:
        subprocess.run(["git", "-C", "/repo", "checkout", "--", "."])
        subprocess.run(["git", "-C", "/repo", "clean", "-fdq"])
    wall = round(time.time() - t0, 1)
    first = ""
    for line in out.splitlines():
        if line.strip().startswith("#"):
            first = line.strip(); break
    det = code == 1 and "VIOLATION property=%s" % prop in out
    m.setdefault("check_results", {})[prop] = {"tier": "quick", "detected": det, "exit": code, "wall_s": wall, "first_violation": first[:300]}
    json.dump(m, open(mp, "w"), indent=1)
    print(name, "detected" if det else "MISSED(exit %d)" % code, wall, first[:110], flush=True)
    if not det:
        missed.append(name)
print("missed:", missed)
