#!/usr/bin/env python3
"""Prints the markdown table of seeded defects from /verif/seeded/*/meta.json (used for DESIGN.md section 10)."""
import json, glob, os
rows = []
for f in sorted(glob.glob('/verif/seeded/*/meta.json')):
    m = json.load(open(f))
    name = os.path.basename(os.path.dirname(f))
    det = []
    for c, r in sorted(m.get('check_results', {}).items()):
        if r.get('detected'):
            sig = r.get('first_violation', '').strip().lstrip('# ').split(':')[0:2]
            det.append('%s %s (%ss): `%s`' % (c, r['tier'], r['wall_s'], ':'.join(sig)[:70]))
        else:
            det.append('%s %s: not detected' % (c, r['tier']))
    for key in ('status_after_repository_fix', 'status'):
        if m.get(key):
            det.append('note: ' + str(m[key]).replace('\n', ' ').replace('|', '/')[:160])
    what = m.get('what_changed', '').replace('\n', ' ').replace('|', '/')
    if len(what) > 230:
        what = what[:227] + '...'
    needs = m.get('needs_to_manifest', '').replace('\n', ' ').replace('|', '/')
    if len(needs) > 170:
        needs = needs[:167] + '...'
    rows.append('| %s | %s | %s | %s |' % (name, what, needs, '<br>'.join(det)))
print('| seed | change | needs to manifest | result |')
print('|---|---|---|---|')
print('\n'.join(rows))
