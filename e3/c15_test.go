// Package e3 is the `crashx` engine: crash-point enumeration of the message-log consumer with real
// child processes killed by SIGKILL at named hook points, restarted on the same directory.
package e3

import (
	"bufio"
	"context"
	"errors"
	"fmt"
	"os"
	"os/exec"
	"path/filepath"
	"strconv"
	"strings"
	"sync"
	"sync/atomic"
	"syscall"
	"testing"
	"time"

	"github.com/vx-labs/commitlog"
	"github.com/vx-labs/mqtt-protocol/packet"
	"github.com/vx-labs/wasp/v4/wasp"
	"github.com/vx-labs/wasp/v4/wasp/messages"

	"verif/internal/vk"
)

// ---------------- child ----------------

// TestC15Child is the consumer process. It is only meaningful when started by TestC15Crash.
func TestC15Child(t *testing.T) {
	dir := os.Getenv("C15_DIR")
	if dir == "" {
		t.Skip("child mode only")
	}
	out, err := os.OpenFile(os.Getenv("C15_OUT"), os.O_CREATE|os.O_WRONLY|os.O_APPEND, 0o644)
	if err != nil {
		os.Exit(3)
	}
	crashK, crashPhase := int64(-1), ""
	if c := os.Getenv("C15_CRASH"); c != "" {
		parts := strings.SplitN(c, ":", 2)
		crashK, _ = strconv.ParseInt(parts[0], 10, 64)
		crashPhase = parts[1]
	}
	until, _ := strconv.ParseInt(os.Getenv("C15_UNTIL"), 10, 64)
	die := func() { syscall.Kill(os.Getpid(), syscall.SIGKILL); select {} }
	messages.VerifPoint = func(name string, off uint64) {
		if int64(off) == crashK && name == crashPhase {
			die()
		}
	}
	log, err := messages.New(dir)
	if err != nil {
		fmt.Fprintf(out, "F open %v\n", err)
		os.Exit(4)
	}
	if from := os.Getenv("C15_OFFER_OVERSIZED_THEN_APPEND_FROM"); from != "" {
		base, _ := strconv.Atoi(from)
		if err := log.Append(&packet.Publish{Header: &packet.Header{}, Topic: []byte("t"), Payload: make([]byte, commitlog.MaxEntrySize)}); err == nil {
			fmt.Fprintf(out, "W %d oversized-publish-accepted\n", base)
		}
		for k := 0; k < 2; k++ {
			if err := log.Append(&packet.Publish{Header: &packet.Header{}, Topic: c15topic(base + k), Payload: []byte(strconv.Itoa(base + k))}); err != nil {
				fmt.Fprintf(out, "F append-after-refused-append %v\n", err)
				os.Exit(4)
			}
		}
	}
	ctx, cancel := context.WithCancel(context.Background())
	go func() { // safety net: never hang the parent
		time.Sleep(12 * time.Second)
		fmt.Fprintf(out, "F timeout\n")
		os.Exit(5)
	}()
	handle := func(off uint64, payload string) error {
		if payload != strconv.FormatUint(off, 10) {
			fmt.Fprintf(out, "W %d %s\n", off, payload)
		}
		fmt.Fprintf(out, "E %d\n", off)
		// the delivery scheduler's other half (the writer) lags behind the consumer and reads messages back by offset
		// while the consumer moves on: such a read must neither fail nor disturb the consumption
		if off >= 3 {
			if q, err := log.Get(off - 3); err != nil || string(q.Payload) != strconv.FormatUint(off-3, 10) {
				fmt.Fprintf(out, "W %d read-back-of-%d-failed\n", off, off-3)
			}
		}
		if int64(off) == crashK && crashPhase == "cb-enter" {
			die()
		}
		if int64(off) == crashK && crashPhase == "stop-error" {
			fmt.Fprintf(out, "S %d\n", off)
			return errors.New("callback refuses")
		}
		fmt.Fprintf(out, "X %d\n", off)
		if int64(off) == crashK && crashPhase == "cb-exit" {
			die()
		}
		if int64(off) == crashK && crashPhase == "stop-cancel" {
			cancel()
		}
		if crashPhase == "" && int64(off) >= until {
			cancel()
		}
		if crashPhase != "" && int64(off) >= until && int64(off) > crashK {
			// the end of the log was reached without passing the crash point (it lies before the restart position)
			fmt.Fprintf(out, "N %d\n", off)
			os.Exit(7)
		}
		return nil
	}
	if crashPhase == "stop-error" {
		// a hand-over that fails: only the consumer's own callback can report an error (the broker's scheduler never does)
		err = log.Consume(ctx, "publish_distributor", func(off uint64, p *packet.Publish) error { return handle(off, string(p.Payload)) })
	} else {
		// the broker's own scheduler sits between the log and what receives the offsets (its Writer)
		// (what receives the offsets reads the messages back from the log, as the real writer does)
		wasp.SchedulePublishes(1, wasp.VerifScheduleWriter(func(_ context.Context, off uint64) {
			p, err := log.Get(off)
			if err != nil {
				handle(off, "unreadable: "+err.Error())
				return
			}
			handle(off, string(p.Payload))
		}), log)(ctx)
	}
	log.Close()
	if err != nil && crashPhase != "stop-error" && !errors.Is(err, context.Canceled) {
		fmt.Fprintf(out, "F consume %v\n", err)
		os.Exit(6)
	}
	os.Exit(0)
}

// ---------------- parent ----------------

type round struct {
	K      int    `json:"k"`
	Phase  string `json:"phase"`
	Append int    `json:"append_after"`
}
// c15topic: the stored messages carry different topic names, among them names that look like filters or belong to the
// broker's own namespace (a log entry is whatever a node appended, from clients, other nodes or wills): none of them may
// keep the consumer from handing over the entries behind it
func c15topic(k int) []byte {
	return []byte([]string{"t", "a/b", "a/+/b", "#", "$SYS/x", "a//b/"}[k%6])
}

type history struct {
	N      int     `json:"initial_log_length"`
	Rounds []round `json:"rounds"`
	// Refused: after the initial appends a publish whose payload has exactly the size the commit log accepts at most
	// (its encoding is larger) is offered to the log, which must refuse it without a trace; two more messages follow
	Refused bool `json:"oversized_append_offered,omitempty"`
}

var smallPhases = []string{"cb-enter", "cb-exit", "before-persist", "after-persist", "stop-cancel", "stop-error"}

func truncates(k int) bool { return k > 1500 && k%1000 == 0 }

func c15histories() []history {
	var out []history
	small := vk.Pick([]int{1, 3, 10, 11, 21}, []int{1, 2, 3, 9, 10, 11, 19, 20, 21, 25, 35})
	for _, n := range small {
		for k := 0; k < n; k++ {
			for _, ph := range smallPhases {
				out = append(out, history{N: n, Rounds: []round{{k, ph, 0}}})
			}
		}
	}
	for _, n := range []int{3, 11} {
		for k := 0; k < n+2; k += vk.Pick(2, 1) {
			for _, ph := range []string{"cb-enter", "cb-exit", "after-persist", "stop-cancel"} {
				out = append(out, history{N: n, Rounds: []round{{k, ph, 0}}, Refused: true})
			}
		}
	}
	pairN := vk.Pick([]int{3, 11}, []int{3, 8, 11, 21, 35})
	for _, n := range pairN {
		for _, ap := range []int{0, 1, 10} {
			for k1 := 0; k1 < n; k1++ {
				for _, ph1 := range smallPhases {
					n2 := n + ap
					for k2 := max(0, k1-1); k2 < n2; k2++ {
						for _, ph2 := range smallPhases {
							if !vk.Thorough() && (ph2 == "stop-error" || ph1 == "stop-error") && ap == 10 {
								continue
							}
							out = append(out, history{N: n, Rounds: []round{{k1, ph1, ap}, {k2, ph2, 0}}})
						}
					}
				}
			}
		}
	}
	if vk.Thorough() {
		n := 8
		ph3 := []string{"cb-enter", "cb-exit", "before-persist", "after-persist"}
		for k1 := 0; k1 < n; k1++ {
			for _, p1 := range ph3 {
				for k2 := max(0, k1-1); k2 < n+1; k2++ {
					for _, p2 := range ph3 {
						for k3 := max(0, k2-1); k3 < n+2; k3++ {
							for _, p3 := range ph3 {
								out = append(out, history{N: n, Rounds: []round{{k1, p1, 1}, {k2, p2, 1}, {k3, p3, 0}}})
							}
						}
					}
				}
			}
		}
	}
	// large log: segments of 500, truncation at 2000
	bigPhases := []string{"cb-enter", "cb-exit", "before-persist", "after-persist"}
	edge := func(k int) bool {
		for _, m := range []int{500, 1000} {
			r := k % m
			if r <= 2 || r >= m-2 {
				return true
			}
		}
		for _, c := range []int{1500, 1700, 2300} {
			if k >= c-2 && k <= c+2 {
				return true
			}
		}
		return false
	}
	for k := 0; k < 2600; k++ {
		r := k % 10
		if vk.Thorough() || edge(k) || ((r == 0 || r == 1 || r == 9) && k%50 < 10) {
			for _, ph := range bigPhases {
				out = append(out, history{N: 2600, Rounds: []round{{k, ph, 0}}})
			}
		}
		if truncates(k) {
			out = append(out, history{N: 2600, Rounds: []round{{k, "before-truncate", 0}}}, history{N: 2600, Rounds: []round{{k, "after-truncate", 0}}})
		}
	}
	// a consumer far behind (more than ten segments): nothing may be trimmed before it was handed over
	for _, k := range []int{0, 150, 5100} {
		out = append(out, history{N: 6200, Rounds: []round{{k, "cb-enter", 0}}}, history{N: 6200, Rounds: []round{{k, "after-persist", 600}}})
	}
	boundary := []int{0, 1, 2, 9, 10, 11, 499, 500, 501, 1499, 1500, 1501, 1699, 1700, 1701, 1999, 2000, 2001, 2299, 2300, 2301}
	for _, k1 := range boundary {
		for _, k2 := range boundary {
			if k2 < k1-1 {
				continue
			}
			for _, p1 := range []string{"cb-exit", "before-persist", "after-persist"} {
				for _, p2 := range []string{"cb-enter", "after-persist"} {
					if !vk.Thorough() && p1 == "cb-exit" {
						continue
					}
					out = append(out, history{N: 2600, Rounds: []round{{k1, p1, 0}, {k2, p2, 0}}})
				}
			}
		}
		if truncates(k1) {
			for _, k2 := range []int{k1, k1 + 1, k1 + 5} {
				out = append(out, history{N: 2600, Rounds: []round{{k1, "before-truncate", 0}, {k2, "cb-enter", 0}}}, history{N: 2600, Rounds: []round{{k1, "after-truncate", 0}, {k2, "cb-enter", 0}}})
			}
		}
	}
	return out
}

func appendMessages(dir string, from, n int) error {
	log, err := messages.New(dir)
	if err != nil {
		return err
	}
	defer log.Close()
	for i := 0; i < n; i++ {
		if err := log.Append(&packet.Publish{Header: &packet.Header{}, Topic: c15topic(from + i), Payload: []byte(strconv.Itoa(from + i))}); err != nil {
			return err
		}
	}
	return nil
}

type incarnation struct {
	entered, exited []int
	wrong, fatal    []string
	killed          bool
	exit            int
}

func runChild(dir, outFile, crash string, until int, extraEnv ...string) incarnation {
	cmd := exec.Command(os.Args[0], "-test.run", "^TestC15Child$")
	cmd.Env = append(os.Environ(), "C15_DIR="+dir, "C15_OUT="+outFile, "C15_CRASH="+crash, "C15_UNTIL="+strconv.Itoa(until), "GOMAXPROCS=2")
	cmd.Env = append(cmd.Env, extraEnv...)
	err := cmd.Run()
	var inc incarnation
	if ee, ok := err.(*exec.ExitError); ok {
		if ws, ok := ee.Sys().(syscall.WaitStatus); ok && ws.Signaled() {
			inc.killed = true
		} else {
			inc.exit = ee.ExitCode()
		}
	}
	f, ferr := os.Open(outFile)
	if ferr != nil {
		return inc
	}
	defer f.Close()
	sc := bufio.NewScanner(f)
	for sc.Scan() {
		line := sc.Text()
		fs := strings.Fields(line)
		if len(fs) < 2 {
			continue
		}
		switch fs[0] {
		case "E":
			v, _ := strconv.Atoi(fs[1])
			inc.entered = append(inc.entered, v)
		case "X":
			v, _ := strconv.Atoi(fs[1])
			inc.exited = append(inc.exited, v)
		case "W":
			inc.wrong = append(inc.wrong, line)
		case "F":
			inc.fatal = append(inc.fatal, line)
		}
	}
	return inc
}

var (
	tmplOnce sync.Once
	tmplDir  string
)

func bigTemplate(base string) string {
	tmplOnce.Do(func() {
		tmplDir = filepath.Join(base, "tmpl2600")
		os.MkdirAll(tmplDir, 0o755)
		if err := appendMessages(tmplDir, 0, 2600); err != nil {
			panic(err)
		}
	})
	return tmplDir
}

func copyDir(src, dst string) error {
	return filepath.Walk(src, func(p string, info os.FileInfo, err error) error {
		if err != nil {
			return err
		}
		rel, _ := filepath.Rel(src, p)
		target := filepath.Join(dst, rel)
		if info.IsDir() {
			return os.MkdirAll(target, 0o755)
		}
		b, err := os.ReadFile(p)
		if err != nil {
			return err
		}
		return os.WriteFile(target, b, info.Mode())
	})
}

func TestC15Crash(t *testing.T) {
	if os.Getenv("C15_DIR") != "" {
		t.Skip("child mode")
	}
	rep := vk.NewReport("C15", "C15/crash-points", "E3-crashx")
	base := os.Getenv("VERIF_SCRATCH")
	if base == "" {
		base = t.TempDir()
	}
	base = filepath.Join(base, "c15")
	os.MkdirAll(base, 0o755)
	hs := c15histories()
	deadline := vk.Deadline(9*time.Minute, 45*time.Minute)
	var evals, children, replays, truncRestarts, nontriv atomic.Int64
	outcomes := vk.NewSet()
	var stop atomic.Bool
	vk.ParallelFor(len(hs), func(i int) {
		if stop.Load() {
			return
		}
		if time.Now().After(deadline) {
			stop.Store(true)
			return
		}
		h := hs[i]
		dir := filepath.Join(base, fmt.Sprintf("h%d", i))
		defer os.RemoveAll(dir)
		if h.N == 2600 {
			if err := copyDir(bigTemplate(base), dir); err != nil {
				rep.HarnessError("copy template: %v", err)
				return
			}
		} else {
			os.MkdirAll(dir, 0o755)
			if err := appendMessages(dir, 0, h.N); err != nil {
				rep.HarnessError("prefill: %v", err)
				return
			}
		}
		evals.Add(1)
		total := h.N
		viol := func(sig, format string, a ...any) {
			rep.Violate(vk.Violation{Sig: sig, Msg: fmt.Sprintf("history %+v: ", h) + fmt.Sprintf(format, a...), Replay: h})
		}
		if h.Refused {
			// the first incarnation itself offers the oversized publish to its log (the same log object its consumer reads
			// from) and then appends two more messages, before it starts consuming
			total += 2
		}
		hDone := -1 // highest offset whose callback returned in an earlier incarnation
		seen := map[int]bool{}
		sawReplay, sawTrunc := false, false
		var sig strings.Builder
		check := func(r int, inc incarnation, expectKill bool, crash string) bool {
			children.Add(1)
			if len(inc.wrong) > 0 {
				viol("c15-wrong-message-at-offset", "incarnation %d (%s): %v", r, crash, inc.wrong)
				return false
			}
			if len(inc.fatal) > 0 {
				viol("c15-consumer-failed", "incarnation %d (%s): %v", r, crash, inc.fatal)
				return false
			}
			if expectKill && !inc.killed {
				viol("c15-crash-point-not-reached", "incarnation %d should have been killed at %s but exited with %d; offsets seen %v", r, crash, inc.exit, head(inc.entered))
				return false
			}
			for j := 1; j < len(inc.entered); j++ {
				if inc.entered[j] != inc.entered[j-1]+1 {
					viol("c15-not-in-log-order", "incarnation %d (%s): offsets not consecutive: ... %d, %d ...", r, crash, inc.entered[j-1], inc.entered[j])
					return false
				}
			}
			if len(inc.entered) > 0 {
				f := inc.entered[0]
				lo, hi := 0, 0
				if hDone >= 0 {
					lo, hi = max(0, hDone-1), hDone+1
				}
				if f > hi {
					viol("c15-messages-skipped", "incarnation %d (%s) started at offset %d although the highest offset completed before was %d: offsets %d..%d were never handed over", r, crash, f, hDone, hDone+1, f-1)
					return false
				}
				if f < lo {
					viol("c15-replayed-too-much", "incarnation %d (%s) started at offset %d although offset %d had already been completed (at most the message in progress may be replayed)", r, crash, f, hDone)
					return false
				}
				if hDone >= 0 && f <= hDone {
					sawReplay = true
				}
			}
			for _, e := range inc.entered {
				seen[e] = true
			}
			for _, x := range inc.exited {
				if x > hDone {
					hDone = x
				}
			}
			fmt.Fprintf(&sig, "%d:%v-%v;", r, first(inc.entered), last(inc.entered))
			return true
		}
		for r, rd := range h.Rounds {
			crash := fmt.Sprintf("%d:%s", rd.K, rd.Phase)
			if rd.K < max(0, hDone-1) || rd.K >= total {
				// the crash point lies before the restart position or beyond the log: skip this history
				return
			}
			var extra []string
			if h.Refused && r == 0 {
				extra = []string{"C15_OFFER_OVERSIZED_THEN_APPEND_FROM=" + strconv.Itoa(total-2)}
			}
			inc := runChild(dir, filepath.Join(dir, fmt.Sprintf("out-%d.log", r)), crash, total-1, extra...)
			expectKill := !strings.HasPrefix(rd.Phase, "stop-")
			if inc.exit == 7 {
				// the consumer restarted after the crash point (legal: it lies at most one message back);
				// still judge order / skipping, then drop the history as infeasible
				check(r, inc, false, crash)
				return
			}
			if strings.HasSuffix(rd.Phase, "-truncate") {
				sawTrunc = true
			}
			if !check(r, inc, expectKill, crash) {
				return
			}
			if rd.Append > 0 {
				if err := appendMessages(dir, total, rd.Append); err != nil {
					viol("c15-append-after-crash-failed", "%v", err)
					return
				}
				total += rd.Append
			}
		}
		// final incarnation: everything must be handed over
		inc := runChild(dir, filepath.Join(dir, "out-final.log"), "", total-1)
		if !check(len(h.Rounds), inc, false, "run to the end") {
			return
		}
		if inc.killed || inc.exit != 0 {
			viol("c15-not-all-handed-over", "the final incarnation did not reach offset %d (exit %d, killed %v); offsets seen %v..%v", total-1, inc.exit, inc.killed, first(inc.entered), last(inc.entered))
			return
		}
		for k := 0; k < total; k++ {
			if !seen[k] {
				viol("c15-never-handed-over", "offset %d of %d was never passed to the callback in any incarnation", k, total)
				return
			}
		}
		outcomes.AddString(sig.String())
		if sawReplay {
			replays.Add(1)
			nontriv.Add(1)
		}
		if sawTrunc || (h.N == 2600 && hDone >= 2000) {
			truncRestarts.Add(1)
		}
		if i%997 == 0 {
			rep.Sample(h)
		}
	})
	if stop.Load() {
		rep.Cap("deadline")
	}
	rep.Evaluations = evals.Load()
	rep.Paths = evals.Load()
	rep.Transitions = children.Load()
	rep.States = outcomes.Len()
	rep.Outcomes = outcomes.Len()
	rep.Nontrivial = outcomes.Len()
	rep.Extra["child_processes"] = children.Load()
	rep.Extra["histories_with_replayed_message"] = replays.Load()
	rep.Extra["histories_over_a_truncation"] = truncRestarts.Load()
	rep.Bounds["small_logs"] = vk.Pick("N in {1,3,10,11,21}: every (k, phase) single round; N in {3,11}: all ordered pairs of rounds with append 0|1|10 in between", "N in {1,2,3,9,10,11,19,20,21,25,35}: single rounds; N in {3,8,11,21,35}: all ordered pairs; N=8: all triples")
	rep.Bounds["large_log"] = vk.Pick("N=2600: k at segment/truncation edges and sampled batch positions x 4 phases + truncate phases; pairs over 21 boundary offsets", "N=2600: every k x 4 phases + truncate phases; pairs over 21 boundary offsets")
	rep.Bounds["phases"] = append(append([]string{}, smallPhases...), "before-truncate", "after-truncate")
	rep.Rule = "history = initial log length, then rounds (kill the consumer process with SIGKILL at hook point (k, phase), or stop it by cancellation / callback error), optional appends between rounds, then a final run to the end; oracle on the per-incarnation offset logs; distinct_nontrivial = distinct per-incarnation (first,last) offset vectors"
	rep.Floor("replayed_message", 10, replays.Load())
	rep.Floor("over_truncation", 5, truncRestarts.Load())
	if err := rep.Write(); err != nil {
		t.Fatal(err)
	}
}

func head(x []int) []int {
	if len(x) > 8 {
		return x[:8]
	}
	return x
}
func first(x []int) any {
	if len(x) == 0 {
		return "-"
	}
	return x[0]
}
func last(x []int) any {
	if len(x) == 0 {
		return "-"
	}
	return x[len(x)-1]
}
