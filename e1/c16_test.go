package e1

import (
	"context"
	"crypto/sha256"
	"fmt"
	"os"
	"path/filepath"
	"strings"
	"sync/atomic"
	"testing"

	"github.com/vx-labs/wasp/v4/wasp/auth"

	"verif/internal/vk"
)

// C16 (store half): every credential table of up to 6 entries, every field shape per entry, file
// orders; every candidate pair from present/absent/swapped/empty values; against a map model.

type c16entry struct {
	user, pass string
	shape      int // 0: user:hash, 1: user:hash:m1, 2: user:hash: (empty mount point)
	// nodigest: the fingerprint column is empty ("user:" / "user::m1"): no password has that fingerprint, the account is locked
	nodigest bool
}

func (e c16entry) mount() string {
	if e.shape == 1 {
		return "m1"
	}
	return auth.DefaultMountPoint
}
func (e c16entry) line() string {
	h := fmt.Sprintf("%x", sha256.Sum256([]byte(e.pass)))
	if e.nodigest {
		h = ""
	}
	switch e.shape {
	case 1:
		return e.user + ":" + h + ":m1"
	case 2:
		return e.user + ":" + h + ":"
	}
	return e.user + ":" + h
}

var c16users = []string{"alice", "bob", "carol", "dave", "eve", "mallory"}

// eve's configured password is the empty one (its fingerprint is the digest of nothing, not nothing)
func c16pass(u string) string {
	if u == "eve" {
		return ""
	}
	return "pw-" + u
}

func permutations(n int) [][]int {
	var out [][]int
	p := make([]int, n)
	for i := range p {
		p[i] = i
	}
	var rec func(k int)
	rec = func(k int) {
		if k == n {
			out = append(out, append([]int{}, p...))
			return
		}
		for i := k; i < n; i++ {
			p[k], p[i] = p[i], p[k]
			rec(k + 1)
			p[k], p[i] = p[i], p[k]
		}
	}
	rec(0)
	return out
}
func rotations(n int) [][]int {
	var out [][]int
	for r := 0; r < n; r++ {
		a := make([]int, n)
		b := make([]int, n)
		for i := 0; i < n; i++ {
			a[i] = (i + r) % n
			b[i] = (n - 1 - i + r) % n
		}
		out = append(out, a, b)
	}
	return out
}

func TestC16Store(t *testing.T) {
	rep := vk.NewReport("C16", "C16/credential-stores", "E1-enum")
	dir := os.Getenv("VERIF_SCRATCH")
	if dir == "" {
		dir = t.TempDir()
	}
	fullUpTo := vk.Pick(3, 4)
	type table struct {
		entries []c16entry
	}
	var tables []table
	for mask := 1; mask < 1<<6; mask++ {
		var us []string
		for i, u := range c16users {
			if mask&(1<<i) != 0 {
				us = append(us, u)
			}
		}
		n := len(us)
		nshape := 1
		for i := 0; i < n; i++ {
			nshape *= 3
		}
		var orders [][]int
		if n <= fullUpTo {
			orders = permutations(n)
		} else {
			orders = rotations(n)
		}
		for sh := 0; sh < nshape; sh++ {
			if n > fullUpTo && !vk.Thorough() {
				// quick: beyond the fully enumerated sizes only three shape assignments per subset
				if sh != 0 && sh != nshape-1 && sh != (nshape-1)/2+1 {
					continue
				}
			}
			base := make([]c16entry, n)
			x := sh
			for i, u := range us {
				base[i] = c16entry{user: u, pass: c16pass(u), shape: x % 3}
				x /= 3
			}
			for _, ord := range orders {
				es := make([]c16entry, n)
				for i, j := range ord {
					es[i] = base[j]
				}
				tables = append(tables, table{es})
				if n <= 2 {
					// the same table with a locked account (empty fingerprint column) at every position
					for pos := 0; pos <= n; pos++ {
						for _, lsh := range []int{0, 1} {
							var with []c16entry
							with = append(with, es[:pos]...)
							with = append(with, c16entry{user: "locked", pass: "", shape: lsh, nodigest: true})
							with = append(with, es[pos:]...)
							tables = append(tables, table{with})
						}
					}
				}
			}
		}
	}
	var evals, accepted, rejected, mixed atomic.Int64
	outcomes := vk.NewSet()
	vk.ParallelFor(len(tables), func(ti int) {
		tb := tables[ti]
		var lines []string
		shapes := map[bool]bool{}
		for _, e := range tb.entries {
			lines = append(lines, e.line())
			shapes[e.shape == 0] = true
		}
		desc := strings.Join(lines, " | ")
		short := func() string {
			var b strings.Builder
			for _, e := range tb.entries {
				fmt.Fprintf(&b, "%s/%d ", e.user, e.shape)
			}
			return b.String()
		}()
		if len(shapes) == 2 {
			mixed.Add(1)
		}
		path := filepath.Join(dir, fmt.Sprintf("cred-%d.csv", ti))
		os.WriteFile(path, []byte(strings.Join(lines, "\n")+"\n"), 0o600)
		defer os.Remove(path)
		var h auth.AuthenticationHandler
		var err error
		if p := vk.Recover(func() { h, err = auth.FileHandler(path) }); p != nil {
			kind := "3-field"
			rep.Violate(vk.Violation{Sig: "c16-file-load-panic-" + kind, Msg: fmt.Sprintf("FileHandler panicked (%v) on table [%s]", p, short), Replay: map[string]any{"file": lines}})
			return
		}
		if err != nil {
			rep.Violate(vk.Violation{Sig: "c16-file-load-error", Msg: fmt.Sprintf("FileHandler rejected table [%s]: %v", short, err), Replay: map[string]any{"file": lines}})
			return
		}
		_ = desc
		model := map[string]c16entry{}
		for _, e := range tb.entries {
			model[e.user] = e
		}
		type cand struct{ u, p string }
		var cands []cand
		for _, e := range tb.entries {
			cands = append(cands, cand{e.user, e.pass}, cand{e.user, "wrong"}, cand{e.pass, e.user}, cand{e.user, ""})
			for _, o := range tb.entries {
				if o.user != e.user {
					cands = append(cands, cand{e.user, o.pass})
					break
				}
			}
		}
		for _, u := range c16users {
			if _, ok := model[u]; !ok {
				cands = append(cands, cand{u, c16pass(u)}, cand{u, tb.entries[0].pass})
				break
			}
		}
		cands = append(cands, cand{"", tb.entries[0].pass}, cand{"", ""}, cand{"nobody", "wrong"}, cand{"nobody", ""})
		for _, c := range cands {
			evals.Add(1)
			var pr auth.Principal
			var aerr error
			if p := vk.Recover(func() {
				pr, aerr = h.Authenticate(context.Background(), auth.ApplicationContext{ClientID: []byte("c"), Username: []byte(c.u), Password: []byte(c.p)}, auth.TransportContext{})
			}); p != nil {
				rep.Violate(vk.Violation{Sig: "c16-authenticate-panic", Msg: fmt.Sprintf("Authenticate(%q,%q) panicked: %v; table [%s]", c.u, c.p, p, short), Replay: map[string]any{"file": lines, "user": c.u, "password": c.p}})
				continue
			}
			e, ok := model[c.u]
			want := ok && e.pass == c.p && !e.nodigest
			outcomes.AddString(fmt.Sprintf("%v/%v/%s", want, aerr == nil, pr.MountPoint))
			switch {
			case want && aerr != nil:
				rep.Violate(vk.Violation{Sig: "c16-valid-credentials-refused", Msg: fmt.Sprintf("(%q,%q) is entry %d of %d in [%s] but was refused: %v", c.u, c.p, indexOf(tb.entries, c.u)+1, len(tb.entries), short, aerr), Replay: map[string]any{"file": lines, "user": c.u, "password": c.p}})
			case !want && aerr == nil:
				rep.Violate(vk.Violation{Sig: "c16-invalid-credentials-accepted", Msg: fmt.Sprintf("(%q,%q) matches no entry of [%s] but was accepted", c.u, c.p, short), Replay: map[string]any{"file": lines, "user": c.u, "password": c.p}})
			case want && pr.MountPoint != e.mount():
				rep.Violate(vk.Violation{Sig: fmt.Sprintf("c16-wrong-mountpoint-shape%d", e.shape), Msg: fmt.Sprintf("(%q,%q) accepted into mount point %q, entry says %q; table [%s]", c.u, c.p, pr.MountPoint, e.mount(), short), Replay: map[string]any{"file": lines, "user": c.u, "password": c.p}})
			case want && pr.ID == "":
				rep.Violate(vk.Violation{Sig: "c16-empty-session-id", Msg: "accepted principal has an empty id"})
			}
			if want {
				accepted.Add(1)
			} else {
				rejected.Add(1)
			}
		}
	})
	// static handler: every pair from a small value pool against every configured pair
	vals := []string{"", "u", "p", "uu", "U"}
	for _, cu := range vals {
		for _, cp := range vals {
			h, err := auth.StaticHandler(cu, cp)
			if err != nil {
				rep.Violate(vk.Violation{Sig: "c16-static-construct", Msg: err.Error()})
				continue
			}
			for _, u := range vals {
				for _, p := range vals {
					evals.Add(1)
					pr, aerr := h.Authenticate(context.Background(), auth.ApplicationContext{Username: []byte(u), Password: []byte(p)}, auth.TransportContext{})
					want := u == cu && p == cp
					if want != (aerr == nil) {
						rep.Violate(vk.Violation{Sig: "c16-static-wrong-verdict", Msg: fmt.Sprintf("static store (%q,%q): candidate (%q,%q) accepted=%v", cu, cp, u, p, aerr == nil)})
					}
					if want && pr.MountPoint != auth.DefaultMountPoint {
						rep.Violate(vk.Violation{Sig: "c16-static-mountpoint", Msg: fmt.Sprintf("static store accepted into %q", pr.MountPoint)})
					}
					if want {
						accepted.Add(1)
					} else {
						rejected.Add(1)
					}
				}
			}
		}
	}
	rep.Evaluations = evals.Load()
	rep.Transitions = evals.Load()
	rep.States = int64(len(tables)) + 25
	rep.Paths = evals.Load()
	rep.Outcomes = outcomes.Len()
	rep.Nontrivial = mixed.Load()
	rep.Bounds["users"] = c16users
	rep.Bounds["tables"] = len(tables)
	rep.Bounds["all_orders_up_to_entries"] = fullUpTo
	rep.Bounds["shapes"] = []string{"user:fingerprint", "user:fingerprint:m1", "user:fingerprint:<empty>", "user:<empty fingerprint> (locked account, tables of <= 2 other entries)"}
	rep.Bounds["empty_password"] = "eve's configured password is the empty string"
	rep.Extra["accepted_expected"] = accepted.Load()
	rep.Extra["rejected_expected"] = rejected.Load()
	rep.Rule = "states = credential tables (subsets of 6 users x field shapes x file orders) + 25 static stores; transitions = Authenticate calls; non-trivial = tables mixing 2- and 3-field lines"
	rep.Sample(map[string]any{"file": []string{tables[len(tables)/2].entries[0].line()}, "candidates": "exact pair, wrong password, another entry's password, swapped, empty user/password, absent user"})
	rep.Floor("accepted", 100, accepted.Load())
	rep.Floor("rejected", 100, rejected.Load())
	rep.Floor("mixed_tables", 10, mixed.Load())
	if err := rep.Write(); err != nil {
		t.Fatal(err)
	}
}

func indexOf(es []c16entry, u string) int {
	for i, e := range es {
		if e.user == u {
			return i
		}
	}
	return -1
}
