package e1

import (
	"fmt"
	"sort"
	"strings"
	"sync/atomic"
	"testing"

	"github.com/vx-labs/mqtt-protocol/packet"
	"github.com/vx-labs/wasp/v4/wasp/sessions"

	"verif/internal/vk"
)

// C19 (session half): the list of filters a session remembers (what its teardown un-subscribes) and the mount-point
// prefixing every topic of the session goes through, as a map over full topic strings. Every sequence of
// prefix(k) / add(prefix(k)) / remove(prefix(k)) over short and longer keys, in the production default mount point and in
// two others, against a set of strings; after every step (1) the list holds exactly the model's strings, (2) every slice the
// session has handed out so far (prefixed topics are kept by the subscription index, the message log, pending QoS 2
// exchanges) still reads mount point + "/" + key, (3) trimming a prefixed topic gives the key back.

type c19sop struct {
	kind string // pre, add, rem
	key  string
}

func (o c19sop) String() string { return o.kind + "(" + o.key + ")" }

func TestC19SessionTopics(t *testing.T) {
	rep := vk.NewReport("C19", "C19/session-topic-list", "E1-seq")
	keys := []string{"a", "b", "a/b", "a/", "#", "sensors/kitchen/temperature"}
	var ops []c19sop
	for _, k := range keys {
		ops = append(ops, c19sop{"add", k}, c19sop{"rem", k}, c19sop{"pre", k})
	}
	depth := vk.Pick(4, 5)
	deadline := vk.Deadline(120e9, 900e9)
	wanted := replayWanted()
	var seqs, steps, handedOut atomic.Int64
	outcomes := vk.NewSet()
	nontriv := vk.NewSet()
	for _, mount := range []string{"_default", "m", "tenant-0123456789"} {
		complete := Seqs(len(ops), depth, true, deadline, func(seq []int) {
			names := make([]string, len(seq))
			for i, o := range seq {
				names[i] = ops[o].String()
			}
			if wanted != nil && !replayMatch(wanted, map[string]any{"mount_point": mount, "ops": names}) {
				return
			}
			seqs.Add(1)
			s, err := sessions.NewSession("s1", mount, "tcp", nil, &packet.Connect{ClientId: []byte("c1")})
			if err != nil {
				rep.Violate(vk.Violation{Sig: "c19-session-new", Msg: err.Error()})
				return
			}
			model := map[string]bool{}
			type handed struct {
				b    []byte
				want string
			}
			var out []handed
			viol := func(k int, sig, format string, a ...any) {
				rep.Violate(vk.Violation{Sig: sig, Msg: fmt.Sprintf("mount point %q, after %v: ", mount, names[:k+1]) + fmt.Sprintf(format, a...), Replay: map[string]any{"mount_point": mount, "ops": names[:k+1]}})
			}
			for k, oi := range seq {
				o := ops[oi]
				steps.Add(1)
				full := mount + "/" + o.key
				var p []byte
				if bad := vk.Recover(func() {
					p = s.PrefixMountPoint([]byte(o.key))
					switch o.kind {
					case "add":
						s.AddTopic(p)
					case "rem":
						s.RemoveTopic(p)
					}
				}); bad != nil {
					viol(k, "c19-session-panic", "panic: %v", bad)
					return
				}
				switch o.kind {
				case "add":
					model[full] = true
				case "rem":
					delete(model, full)
				}
				if string(p) != full {
					viol(k, "c19-session-prefix-wrong", "PrefixMountPoint(%q) = %q, expected %q", o.key, p, full)
					return
				}
				if got := string(s.TrimMountPoint(p)); got != o.key {
					viol(k, "c19-session-trim-wrong", "TrimMountPoint(%q) = %q, expected %q", p, got, o.key)
					return
				}
				out = append(out, handed{p, full})
				handedOut.Add(1)
				for i, h := range out {
					if string(h.b) != h.want {
						viol(k, "c19-session-earlier-topic-rewritten", "the topic handed out at step %d (%s) read %q then and reads %q now", i, names[i], h.want, h.b)
						return
					}
				}
				var got, want []string
				for _, tp := range s.GetTopics() {
					got = append(got, string(tp))
				}
				for m := range model {
					want = append(want, m)
				}
				sort.Strings(got)
				sort.Strings(want)
				if strings.Join(got, " ") != strings.Join(want, " ") {
					viol(k, "c19-session-list-differs", "the session remembers filters %q, a set of full topic strings holds %q", got, want)
					return
				}
			}
			var fin []string
			for m := range model {
				fin = append(fin, m)
			}
			sort.Strings(fin)
			outcomes.AddString(strings.Join(fin, " "))
			if len(fin) >= 2 {
				nontriv.AddString(mount + strings.Join(names, ","))
			}
		})
		if !complete {
			rep.Cap("deadline")
		}
	}
	rep.Evaluations = seqs.Load()
	rep.Paths = seqs.Load()
	rep.Transitions = steps.Load()
	rep.States = outcomes.Len()
	rep.Outcomes = outcomes.Len()
	rep.Nontrivial = nontriv.Len()
	rep.Bounds["depth"] = depth
	rep.Bounds["keys"] = keys
	rep.Bounds["mount_points"] = []string{"_default", "m", "tenant-0123456789"}
	rep.Bounds["ops"] = len(ops)
	rep.Extra["slices_handed_out_and_rechecked"] = float64(handedOut.Load())
	rep.Rule = "every sequence of prefix / add / remove over the keys on a real sessions.Session per mount point; after each step the remembered list equals a set of full strings, every slice handed out earlier is unchanged, trim(prefix(k)) = k; states = distinct final sets; non-trivial = sequences ending with >= 2 remembered filters"
	rep.Floor("nontrivial", 100, int64(nontriv.Len()))
	if err := rep.Write(); err != nil {
		t.Fatal(err)
	}
}
