package e1

import (
	"fmt"
	"sort"
	"strings"
	"sync/atomic"
	"testing"

	"github.com/vx-labs/wasp/v4/subscriptions"

	"verif/internal/vk"
)

// ---- reference matcher: MQTT 3.1.1 section 4.7 ----

// refMatch reports whether filter matches topic: '+' exactly one level (possibly empty), a trailing
// '#' the parent level and everything below it.
func refMatch(filter, topic string) bool {
	return refMatchLevels(strings.Split(filter, "/"), strings.Split(topic, "/"))
}
func refMatchLevels(f, t []string) bool {
	for i, fl := range f {
		if fl == "#" && i == len(f)-1 {
			return true // zero or more remaining levels
		}
		if i >= len(t) {
			return false
		}
		if fl != "+" && fl != t[i] {
			return false
		}
	}
	return len(f) == len(t)
}

// truncLevels is what the known empty-level defect does to a topic or filter: everything from the
// first empty level on is dropped (format.Topic.Next returns "" both for an empty level and at the end).
func truncLevels(s string) []string {
	var out []string
	for _, l := range strings.Split(s, "/") {
		if l == "" {
			break
		}
		out = append(out, l)
	}
	return out
}
func hasEmptyLevel(s string) bool {
	for _, l := range strings.Split(s, "/") {
		if l == "" {
			return true
		}
	}
	return false
}

func allNames(alpha []string, maxLevels int) []string {
	var out []string
	cur := [][]string{{}}
	for d := 1; d <= maxLevels; d++ {
		var next [][]string
		for _, p := range cur {
			for _, a := range alpha {
				q := append(append([]string{}, p...), a)
				next = append(next, q)
				out = append(out, strings.Join(q, "/"))
			}
		}
		cur = next
	}
	return out
}

// allFilters: levels over alpha (which includes "+"), '#' only as the last level.
func allFilters(alpha []string, maxLevels int) []string {
	var out []string
	cur := [][]string{{}}
	for d := 1; d <= maxLevels; d++ {
		var next [][]string
		for _, p := range cur {
			out = append(out, strings.Join(append(append([]string{}, p...), "#"), "/"))
			for _, a := range alpha {
				q := append(append([]string{}, p...), a)
				next = append(next, q)
				out = append(out, strings.Join(q, "/"))
			}
		}
		cur = next
	}
	return out
}

func walkSet(tr subscriptions.Tree, topic string) []string {
	var got []string
	tr.Walk([]byte(topic), func(b []byte) {
		if len(b) > 0 {
			got = append(got, strings.TrimPrefix(string(b), "="))
		}
	})
	sort.Strings(got)
	return got
}

func dollarBelowFirst(names []string) []string {
	out := make([]string, len(names))
	for i, n := range names {
		ls := strings.Split(n, "/")
		for k := 1; k < len(ls); k++ {
			if ls[k] == "c" {
				ls[k] = "$c"
			}
		}
		out[i] = strings.Join(ls, "/")
	}
	return out
}

// TestC01Matcher: every (filter, topic) pair on a trie holding that one filter.
func TestC01Matcher(t *testing.T) {
	rep := vk.NewReport("C01", "C01/matcher-pairs", "E1-enum")
	// below the first level the name "c" is written "$c": a level that begins with '$' is a level like any other there
	// (only a topic's FIRST level is special to MQTT 4.7.2, and such topics are outside this alphabet)
	topics := dollarBelowFirst(allNames([]string{"a", "b", "c", ""}, 4))
	filters := dollarBelowFirst(allFilters([]string{"a", "b", "c", "+", ""}, 4))
	var evals, matches, nonmatches, emptyLevelPairs atomic.Int64
	outcomes := vk.NewSet()
	vk.ParallelFor(len(filters), func(fi int) {
		f := filters[fi]
		tr := subscriptions.NewTree()
		tr.Upsert([]byte(f), func([]byte) []byte { return []byte("=" + f) })
		for _, tp := range topics {
			evals.Add(1)
			got := len(walkSet(tr, tp))
			want := 0
			if refMatch(f, tp) {
				want = 1
				matches.Add(1)
			} else {
				nonmatches.Add(1)
			}
			outcomes.AddString(fmt.Sprintf("%d/%d/%s", got, want, shape(f)))
			if got == want {
				continue
			}
			kf := ""
			if hasEmptyLevel(f) || hasEmptyLevel(tp) {
				emptyLevelPairs.Add(1)
				pred := 0
				if refMatchLevels(truncLevels(f), truncLevels(tp)) {
					pred = 1
				}
				if got == pred {
					kf = "C01-empty-level-truncates"
				}
			}
			sig := "c01-matcher-extra"
			if got < want {
				sig = "c01-matcher-missing"
			}
			if got > 1 {
				sig = "c01-matcher-duplicate"
			}
			rep.Violate(vk.Violation{Sig: sig + ":" + classOf(f, tp), KF: kf,
				Msg:    fmt.Sprintf("filter %q vs topic %q: trie reports %d match(es), MQTT 4.7 says %d", f, tp, got, want),
				Replay: map[string]any{"filter": f, "topic": tp}})
		}
	})
	rep.Evaluations = evals.Load()
	rep.Transitions = evals.Load()
	rep.Paths = evals.Load()
	rep.States = int64(len(filters))
	rep.Outcomes = outcomes.Len()
	rep.Nontrivial = outcomes.Len()
	rep.Bounds["topics"] = fmt.Sprintf("%d names of 1-4 levels over {a,b,c,<empty>}", len(topics))
	rep.Bounds["filters"] = fmt.Sprintf("%d filters of 1-4 levels over {a,b,c,+,<empty>} with # as last level only", len(filters))
	rep.Extra["expected_matches"] = matches.Load()
	rep.Extra["expected_non_matches"] = nonmatches.Load()
	rep.Rule = "every (filter, topic) pair on a subscriptions.Tree holding only that filter vs a level-by-level MQTT 3.1.1 4.7 reference; states = filters; outcomes = distinct (reported, expected, filter shape) triples"
	rep.Sample(map[string]any{"filter": "a/+/#", "topic": "a/b", "expected": refMatch("a/+/#", "a/b")})
	rep.Sample(map[string]any{"filter": "a/#", "topic": "a", "expected": true})
	rep.Floor("matches", 1000, matches.Load())
	rep.Floor("non_matches", 1000, nonmatches.Load())
	if err := rep.Write(); err != nil {
		t.Fatal(err)
	}
}

func shape(f string) string {
	var b strings.Builder
	for _, l := range strings.Split(f, "/") {
		switch l {
		case "+", "#":
			b.WriteString(l)
		case "":
			b.WriteString("e")
		default:
			b.WriteString("x")
		}
	}
	return b.String()
}
func classOf(f, t string) string {
	c := ""
	if hasEmptyLevel(f) || hasEmptyLevel(t) {
		c += "empty-level"
	}
	if strings.HasSuffix(f, "#") {
		c += "#"
	}
	if strings.Contains(f, "+") {
		c += "+"
	}
	return c
}

// TestC01Independence: pairs and triples of filters in every insertion order, plus removal of each
// member: the result for a topic is always the union of the single-filter results.
func TestC01Independence(t *testing.T) {
	rep := vk.NewReport("C01", "C01/filter-independence", "E1-enum")
	// universe: <=3 levels over {a,b,+}, optional trailing '#'
	var universe []string
	for _, f := range allFilters([]string{"a", "b", "+"}, 3) {
		universe = append(universe, f)
	}
	universe = append(universe, "a/b/+/#")
	topics := []string{"a", "b", "a/a", "a/b", "b/a", "b/b", "a/a/a", "a/a/b", "a/b/a", "a/b/b", "b/a/b", "b/b/b", "a/b/a/b", "c"}
	single := map[string]map[string]bool{}
	for _, f := range universe {
		tr := subscriptions.NewTree()
		tr.Upsert([]byte(f), func([]byte) []byte { return []byte("=" + f) })
		single[f] = map[string]bool{}
		for _, tp := range topics {
			if len(walkSet(tr, tp)) == 1 {
				single[f][tp] = true
			}
		}
	}
	n := len(universe)
	triples := vk.Thorough()
	var evals, walks atomic.Int64
	outcomes := vk.NewSet()
	check := func(tr subscriptions.Tree, active []string, how string) {
		for _, tp := range topics {
			walks.Add(1)
			got := walkSet(tr, tp)
			var want []string
			for _, f := range active {
				if single[f][tp] {
					want = append(want, f)
				}
			}
			sort.Strings(want)
			outcomes.AddString(strings.Join(got, ","))
			if strings.Join(got, ",") != strings.Join(want, ",") {
				rep.Violate(vk.Violation{Sig: "c01-depends-on-other-filters", Msg: fmt.Sprintf("%s: topic %q matched %v, the filters taken alone give %v", how, tp, got, want), Replay: map[string]any{"history": how, "topic": tp}})
				return
			}
		}
	}
	vk.ParallelFor(n, func(i int) {
		for j := 0; j < n; j++ {
			if j == i {
				continue
			}
			ks := []int{-1}
			if triples {
				ks = ks[:0]
				for k := 0; k < n; k++ {
					if k != i && k != j {
						ks = append(ks, k)
					}
				}
			}
			for _, k := range ks {
				// ordered insertion i, j, (k): every order is generated as (i,j,k) ranges over all ordered tuples
				fs := []string{universe[i], universe[j]}
				if k >= 0 {
					fs = append(fs, universe[k])
				}
				evals.Add(1)
				tr := subscriptions.NewTree()
				for _, f := range fs {
					f := f
					tr.Upsert([]byte(f), func([]byte) []byte { return []byte("=" + f) })
				}
				check(tr, fs, "insert "+strings.Join(fs, ", "))
				if k < 0 || (i < j && j < k) || !triples {
					// removal of the first inserted filter, then re-insertion
					tr.Upsert([]byte(fs[0]), func([]byte) []byte { return nil })
					check(tr, fs[1:], "insert "+strings.Join(fs, ", ")+"; remove "+fs[0])
					f0 := fs[0]
					tr.Upsert([]byte(f0), func([]byte) []byte { return []byte("=" + f0) })
					check(tr, fs, "insert "+strings.Join(fs, ", ")+"; remove "+fs[0]+"; re-insert "+fs[0])
				}
			}
		}
	})
	rep.Evaluations = evals.Load()
	rep.Paths = evals.Load()
	rep.Transitions = walks.Load()
	rep.States = outcomes.Len()
	rep.Outcomes = outcomes.Len()
	rep.Nontrivial = outcomes.Len()
	rep.Bounds["universe"] = fmt.Sprintf("%d filters (<=3 levels over {a,b,+}, optional trailing #)", n)
	rep.Bounds["topics"] = topics
	rep.Bounds["tuples"] = map[bool]string{false: "all ordered pairs", true: "all ordered pairs and triples"}[triples]
	rep.Rule = "every ordered pair (thorough: triple) of distinct filters inserted in that order into one trie, plus remove / re-insert of the first; each topic's result must be the union of the single-filter results; states = distinct result sets"
	rep.Sample(map[string]any{"insert": []string{universe[3], universe[10]}, "topics": topics[:4]})
	rep.Floor("result_sets", 20, outcomes.Len())
	if err := rep.Write(); err != nil {
		t.Fatal(err)
	}
}

// TestC01Histories: subscribe/unsubscribe/re-subscribe histories on the replicated subscription
// state; ByPattern must equal the reference over the active set after every step.
func TestC01Histories(t *testing.T) {
	depth := vk.Pick(4, 5)
	sessions := []string{"s1", "s2"}
	filters := []string{"m/a", "m/a/b", "m/a/#", "m/+/b"}
	topics := []string{"m/a", "m/b", "m/a/a", "m/a/b", "m/b/a", "m/b/b", "m/a/b/a", "m/a/b/b", "m/b/a/b", "m/c", "m/a/a/a", "m/a/c", "m", "m/b/b/b"}
	type hop struct {
		kind, s, f string
		q          int32
	}
	var ops []hop
	for _, s := range sessions {
		for _, f := range filters {
			ops = append(ops, hop{"create", s, f, 0}, hop{"create", s, f, 1})
		}
	}
	for _, s := range sessions {
		for _, f := range filters {
			ops = append(ops, hop{"delete", s, f, 0})
		}
	}
	for _, s := range sessions {
		ops = append(ops, hop{"deleteSession", s, "", 0})
	}
	// replication echoes must not change who matches: the node's own full state merged back, the last
	// broadcast delivered again, and a peer's snapshot of the same state
	ops = append(ops, hop{"echo-own-full-state", "", "", 0}, hop{"redeliver-last-broadcast", "", "", 0})
	// a peer's snapshot taken now and merged back later must lose against everything that happened in between
	ops = append(ops, hop{"peer-takes-snapshot", "", "", 0}, hop{"merge-stale-peer-snapshot", "", "", 0})
	name := func(o hop) string {
		switch o.kind {
		case "echo-own-full-state", "redeliver-last-broadcast", "peer-takes-snapshot", "merge-stale-peer-snapshot":
			return o.kind
		case "create":
			return fmt.Sprintf("Create(%s,%s,q%d)", o.s, o.f, o.q)
		case "delete":
			return fmt.Sprintf("Delete(%s,%s)", o.s, o.f)
		}
		return fmt.Sprintf("DeleteSession(%s)", o.s)
	}
	shardedPhase(t, "C01", "C01/subscription-histories", "E1-seq", "TestC01Histories", func(sh vk.Shard, rep *vk.Report) {
		dInstallClock()
		deadline := vk.Deadline(150e9, 1200e9)
		states := vk.NewSet()
		byActive := map[string]string{} // active set -> answers (differential oracle)
		var seqs, steps int64
		wanted := replayWanted()
		hourly := false
		body := func(seq []int) {
			if wanted != nil {
				nm := make([]string, len(seq))
				for i, o := range seq {
					nm[i] = name(ops[o])
				}
				ok := false
				for k := 1; k <= len(nm) && !ok; k++ {
					for _, tp := range append([]string{""}, topics...) {
						c := map[string]any{"ops": nm[:k]}
						if tp != "" {
							c["topic"] = tp
						}
						if replayMatch(wanted, c) {
							ok = true
						}
					}
				}
				if !ok {
					return
				}
			}
			seqs++
			dResetClock()
			if hourly {
				dStep, dShift = 61*60*1_000_000_000, 200*3600*1_000_000_000
			}
			n := newDNode("A", 1, 0)
			active := map[string]int32{} // s|f -> qos
			var names []string
			var lastMsgs [][]byte
			var peerSnap []byte
			for _, oi := range seq {
				o := ops[oi]
				names = append(names, name(o))
				steps++
				if p := vk.Recover(func() {
					msgs := n.do(func() {
						switch o.kind {
						case "echo-own-full-state":
							peer := newDNode("P", 2, 0)
							peer.st.Distributor().MergeRemoteState(n.st.Distributor().LocalState(false), true)
							n.st.Distributor().MergeRemoteState(n.st.Distributor().LocalState(false), false)
							n.st.Distributor().MergeRemoteState(peer.st.Distributor().LocalState(false), false)
						case "peer-takes-snapshot":
							peer := newDNode("P", 2, 0)
							peer.st.Distributor().MergeRemoteState(n.st.Distributor().LocalState(false), true)
							peerSnap = peer.st.Distributor().LocalState(false)
						case "merge-stale-peer-snapshot":
							if peerSnap != nil {
								n.st.Distributor().MergeRemoteState(peerSnap, false)
							}
						case "redeliver-last-broadcast":
							for _, m := range lastMsgs {
								n.st.Distributor().NotifyMsg(m)
							}
						case "create":
							n.st.Subscriptions().Create(o.s, []byte(o.f), o.q)
							active[o.s+"|"+o.f] = o.q
						case "delete":
							n.st.Subscriptions().Delete(o.s, []byte(o.f))
							delete(active, o.s+"|"+o.f)
						case "deleteSession":
							n.st.Subscriptions().DeleteSession(o.s)
							for k := range active {
								if strings.HasPrefix(k, o.s+"|") {
									delete(active, k)
								}
							}
						}
					})
					if len(msgs) > 0 {
						lastMsgs = msgs
					}
				}); p != nil {
					rep.Violate(vk.Violation{Sig: "c01-hist-panic:" + o.kind, Msg: fmt.Sprintf("after %v: panic %v", names, p), Replay: map[string]any{"ops": append([]string{}, names...)}})
					return
				}
				var answers strings.Builder
				for _, tp := range topics {
					var got []string
					for _, s := range n.st.Subscriptions().ByPattern([]byte(tp)) {
						got = append(got, fmt.Sprintf("%s|%s|q%d|p%d", s.SessionID, s.Pattern, s.QoS, s.Peer))
					}
					sort.Strings(got)
					var want []string
					for k, q := range active {
						f := k[strings.Index(k, "|")+1:]
						if refMatch(f, tp) {
							want = append(want, fmt.Sprintf("%s|q%d|p1", k, q))
						}
					}
					sort.Strings(want)
					g, w := strings.Join(got, " "), strings.Join(want, " ")
					answers.WriteString(g + ";")
					if g != w {
						rep.Violate(vk.Violation{Sig: "c01-history-wrong-recipients:" + o.kind,
							Msg:    fmt.Sprintf("after %v: ByPattern(%q) = [%s], active subscriptions matching it: [%s]", names, tp, g, w),
							Replay: map[string]any{"ops": append([]string{}, names...), "topic": tp}})
						return
					}
				}
				ak := fmt.Sprint(sortedKV(active))
				states.AddString(ak)
				if prev, ok := byActive[ak]; ok && prev != answers.String() {
					rep.Violate(vk.Violation{Sig: "c01-history-dependent", Msg: fmt.Sprintf("two histories with the same active set %s answer differently: %s vs %s", ak, prev, answers.String())})
				} else {
					byActive[ak] = answers.String()
				}
			}
		}
		complete := SeqsShard(len(ops), depth, sh, deadline, func(seq []int) {
			// every history twice: under the usual clock (10 ns per reading) and with more than an hour between any two
			// operations (whatever a node does with old entries must not change who receives what)
			hourly = false
			body(seq)
			hourly = true
			body(seq)
		})
		if !complete {
			rep.Cap("deadline")
		}
		rep.Evaluations = seqs
		rep.Paths = seqs
		rep.Transitions = steps
		rep.States = states.Len()
		rep.Nontrivial = states.Len()
		vk.WriteHashes("states", "C01/subscription-histories", states)
		vk.WriteHashes("nontrivial", "C01/subscription-histories", states)
		rep.Sample([]string{name(ops[0]), name(ops[5]), name(ops[16]), name(ops[24])})
	}, func(rep *vk.Report) {
		rep.Outcomes = rep.States
		var names []string
		for _, o := range ops {
			names = append(names, name(o))
		}
		rep.Bounds["alphabet"] = names
		rep.Bounds["depth"] = depth
		rep.Bounds["topics"] = topics
		rep.Rule = "every sequence of length d of Create/Delete/DeleteSession on the real SubscriptionsState; after every step ByPattern on 14 topics equals the MQTT 4.7 reference over the active set (multiset of session, filter, qos, peer); equal active sets must answer identically; states = distinct active sets"
		rep.Floor("active_sets", 100, rep.States)
	})
}

func sortedKV(m map[string]int32) []string {
	var out []string
	for k, v := range m {
		out = append(out, fmt.Sprintf("%s=q%d", k, v))
	}
	sort.Strings(out)
	return out
}
