package e1

import (
	"fmt"
	"reflect"
	"sort"
	"strings"
	"testing"
	"unsafe"

	"github.com/vx-labs/wasp/v4/subscriptions"
	"github.com/vx-labs/wasp/v4/topics"

	"verif/internal/vk"
)

// ---- internal state readers (exact canonical state, including nil-vs-empty child maps) ----

func topicsRoot(s topics.Store) *topics.Node {
	v := reflect.ValueOf(s).Elem().FieldByName("root")
	if !v.IsValid() {
		panic("harness: topics.tree has no field root")
	}
	return *(**topics.Node)(unsafe.Pointer(v.UnsafeAddr()))
}
func subsRoot(s subscriptions.Tree) *subscriptions.Node {
	v := reflect.ValueOf(s).Elem().FieldByName("root")
	if !v.IsValid() {
		panic("harness: subscriptions.tree has no field root")
	}
	return *(**subscriptions.Node)(unsafe.Pointer(v.UnsafeAddr()))
}
func canonTopics(n *topics.Node, b *strings.Builder) {
	if n == nil {
		b.WriteString("<nil>")
		return
	}
	fmt.Fprintf(b, "(%q", n.Buf)
	if n.Children == nil {
		b.WriteString(" nilmap")
	}
	keys := make([]string, 0, len(n.Children))
	for k := range n.Children {
		keys = append(keys, k)
	}
	sort.Strings(keys)
	for _, k := range keys {
		fmt.Fprintf(b, " %q:", k)
		canonTopics(n.Children[k], b)
	}
	b.WriteString(")")
}
func canonSubs(n *subscriptions.Node, b *strings.Builder) {
	if n == nil {
		b.WriteString("<nil>")
		return
	}
	fmt.Fprintf(b, "(%q", n.Data)
	if n.Children == nil {
		b.WriteString(" nilmap")
	}
	keys := make([]string, 0, len(n.Children))
	for k := range n.Children {
		keys = append(keys, k)
	}
	sort.Strings(keys)
	for _, k := range keys {
		fmt.Fprintf(b, " %q:", k)
		canonSubs(n.Children[k], b)
	}
	b.WriteString(")")
}

// scratchKey hands the store a key in a buffer the caller goes on to reuse (the broker passes slices of its packet
// buffers); scribble overwrites it once the call has returned. A store that keeps the caller's bytes instead of copying
// them sees its keys change under it.
func scratchKey(k string) []byte {
	b := make([]byte, len(k), len(k)+8)
	copy(b, k)
	return b
}
func scribble(b []byte) {
	b = b[:cap(b)]
	for i := range b {
		b[i] = '~'
	}
}

type kvModel map[string]string

func (m kvModel) canon() string {
	keys := make([]string, 0, len(m))
	for k := range m {
		keys = append(keys, k)
	}
	sort.Strings(keys)
	var b strings.Builder
	for _, k := range keys {
		fmt.Fprintf(&b, "%s=%s;", k, m[k])
	}
	return b.String()
}
func (m kvModel) clone() kvModel {
	c := kvModel{}
	for k, v := range m {
		c[k] = v
	}
	return c
}
func (m kvModel) values() []string {
	out := []string{}
	for _, v := range m {
		out = append(out, v)
	}
	sort.Strings(out)
	return out
}

type c19op struct {
	kind string // ins, rem, rt (round trip)
	key  string
	val  string
}

func (o c19op) String() string {
	switch o.kind {
	case "rt":
		return "dump+load"
	case "rem":
		return "remove(" + o.key + ")"
	}
	return fmt.Sprintf("%s(%s,%q)", o.kind, o.key, o.val)
}

// ---- topics.Store ----

type topicsSys struct {
	st    topics.Store
	model kvModel
	keys  []string
	ops   []c19op
	rts   int
}

func (s *topicsSys) observe() *vk.Violation {
	for _, k := range s.keys {
		var out [][]byte
		if err := s.st.Match([]byte(k), &out); err != nil {
			return &vk.Violation{Sig: "topics-match-error", Msg: fmt.Sprintf("Match(%s) error %v", k, err)}
		}
		want, ok := s.model[k]
		if !ok {
			if len(out) != 0 {
				return &vk.Violation{Sig: "topics-match-extra", Msg: fmt.Sprintf("Match(%s)=%q but nothing is stored there (model %s)", k, out, s.model.canon())}
			}
		} else if len(out) != 1 || string(out[0]) != want {
			kf := ""
			return &vk.Violation{Sig: "topics-match-wrong", KF: kf, Msg: fmt.Sprintf("Match(%s)=%q want [%q] (model %s)", k, out, want, s.model.canon())}
		}
	}
	if c := s.st.Count(); c != len(s.model) {
		return &vk.Violation{Sig: "topics-count", Msg: fmt.Sprintf("Count()=%d want %d (model %s)", c, len(s.model), s.model.canon())}
	}
	got := []string{}
	s.st.Iterate(func(b []byte) { got = append(got, string(b)) })
	sort.Strings(got)
	if !reflect.DeepEqual(got, s.model.values()) {
		return &vk.Violation{Sig: "topics-iterate", Msg: fmt.Sprintf("Iterate()=%q want %q", got, s.model.values())}
	}
	return nil
}

func (s *topicsSys) Apply(i int) *vk.Violation {
	// a dump taken before the operation must still rebuild the state it was taken in after the operation and a later dump
	pre, perr := s.st.Dump()
	preModel := s.model.clone()
	if v := s.apply(i); v != nil {
		return v
	}
	if _, err := s.st.Dump(); err == nil && perr == nil {
		n := topics.NewTree()
		if err := n.Load(pre); err != nil {
			return &vk.Violation{Sig: "topics-earlier-dump-unloadable", Msg: fmt.Sprintf("a dump taken before %s no longer loads after it and a later dump: %v", s.ops[i], err)}
		}
		if v := (&topicsSys{st: n, model: preModel, keys: s.keys, ops: s.ops}).observe(); v != nil {
			return &vk.Violation{Sig: "topics-earlier-dump-changed", Msg: fmt.Sprintf("a dump taken before %s, loaded after it and a later dump, does not rebuild the state it was taken in: %s", s.ops[i], v.Msg)}
		}
	}
	return nil
}

func (s *topicsSys) apply(i int) *vk.Violation {
	o := s.ops[i]
	switch o.kind {
	case "ins":
		kb := scratchKey(o.key)
		old, err := s.st.Insert(kb, []byte(o.val))
		scribble(kb)
		if err != nil {
			return &vk.Violation{Sig: "topics-insert-error", Msg: fmt.Sprintf("Insert error %v", err)}
		}
		_, had := s.model[o.key]
		if old != had {
			return &vk.Violation{Sig: "topics-insert-old", Msg: fmt.Sprintf("Insert(%s) reported replaced=%v, want %v", o.key, old, had)}
		}
		if o.val == "" {
			delete(s.model, o.key)
		} else {
			s.model[o.key] = o.val
		}
	case "rem":
		kb := scratchKey(o.key)
		s.st.Remove(kb) // error value for an absent key is not judged
		scribble(kb)
		delete(s.model, o.key)
	case "rt":
		buf, err := s.st.Dump()
		if err != nil {
			return &vk.Violation{Sig: "topics-dump-error", Msg: err.Error()}
		}
		n := topics.NewTree()
		if err := n.Load(buf); err != nil {
			return &vk.Violation{Sig: "topics-load-error", Msg: err.Error()}
		}
		s.st = n
		s.rts++
	}
	return s.observe()
}
func (s *topicsSys) Key() string {
	// every field of the store (not only the node tree): a hidden cache or index is state too
	return deepCanon(s.st) + "#" + s.model.canon()
}
func (s *topicsSys) Nontrivial() bool {
	// at least one stored key is a strict prefix of another stored key
	for a := range s.model {
		for b := range s.model {
			if a != b && strings.HasPrefix(b, a+"/") {
				return true
			}
		}
	}
	return false
}

// ---- subscriptions.Tree ----

type subsSys struct {
	st    subscriptions.Tree
	model kvModel
	keys  []string
	ops   []c19op
}

func (s *subsSys) observe() *vk.Violation {
	for _, k := range s.keys {
		got := []string{}
		s.st.Walk([]byte(k), func(b []byte) {
			if len(b) > 0 {
				got = append(got, string(b))
			}
		})
		want, ok := s.model[k]
		if !ok && len(got) != 0 {
			return &vk.Violation{Sig: "subs-walk-extra", Msg: fmt.Sprintf("Walk(%s)=%q but nothing is stored there (model %s)", k, got, s.model.canon())}
		}
		if ok && (len(got) != 1 || got[0] != want) {
			return &vk.Violation{Sig: "subs-walk-wrong", Msg: fmt.Sprintf("Walk(%s)=%q want [%q] (model %s)", k, got, want, s.model.canon())}
		}
	}
	got := []string{}
	s.st.Iterate(func(b []byte) { got = append(got, string(b)) })
	sort.Strings(got)
	if !reflect.DeepEqual(got, s.model.values()) {
		return &vk.Violation{Sig: "subs-iterate", Msg: fmt.Sprintf("Iterate()=%q want %q", got, s.model.values())}
	}
	return nil
}
func (s *subsSys) Apply(i int) *vk.Violation {
	pre, perr := s.st.Dump()
	preModel := s.model.clone()
	if v := s.apply(i); v != nil {
		return v
	}
	if _, err := s.st.Dump(); err == nil && perr == nil {
		n := subscriptions.NewTree()
		if err := n.Load(pre); err != nil {
			return &vk.Violation{Sig: "subs-earlier-dump-unloadable", Msg: fmt.Sprintf("a dump taken before %s no longer loads after it and a later dump: %v", s.ops[i], err)}
		}
		if v := (&subsSys{st: n, model: preModel, keys: s.keys, ops: s.ops}).observe(); v != nil {
			return &vk.Violation{Sig: "subs-earlier-dump-changed", Msg: fmt.Sprintf("a dump taken before %s, loaded after it and a later dump, does not rebuild the state it was taken in: %s", s.ops[i], v.Msg)}
		}
	}
	return nil
}

func (s *subsSys) apply(i int) *vk.Violation {
	o := s.ops[i]
	switch o.kind {
	case "ups":
		var seen string
		called := 0
		kb := scratchKey(o.key)
		defer scribble(kb)
		err := s.st.Upsert(kb, func(old []byte) []byte {
			called++
			seen = string(old)
			if o.val == "" {
				return nil
			}
			return []byte(o.val)
		})
		if err != nil {
			return &vk.Violation{Sig: "subs-upsert-error", Msg: err.Error()}
		}
		if called != 1 || seen != s.model[o.key] {
			return &vk.Violation{Sig: "subs-upsert-old", Msg: fmt.Sprintf("Upsert(%s) callback calls=%d saw %q, want 1 call with %q", o.key, called, seen, s.model[o.key])}
		}
		if o.val == "" {
			delete(s.model, o.key)
		} else {
			s.model[o.key] = o.val
		}
	case "rt":
		buf, err := s.st.Dump()
		if err != nil {
			return &vk.Violation{Sig: "subs-dump-error", Msg: err.Error()}
		}
		n := subscriptions.NewTree()
		if err := n.Load(buf); err != nil {
			return &vk.Violation{Sig: "subs-load-error", Msg: err.Error()}
		}
		s.st = n
	}
	return s.observe()
}
func (s *subsSys) Key() string {
	return deepCanon(s.st) + "#" + s.model.canon()
}
func (s *subsSys) Nontrivial() bool {
	for a := range s.model {
		for b := range s.model {
			if a != b && strings.HasPrefix(b, a+"/") {
				return true
			}
		}
	}
	return false
}

func c19Keys() []string {
	k := []string{"a", "a/b", "a/b/c", "a/c", "b"}
	if vk.Thorough() {
		k = append(k, "b/a", "a/", "/a")
	}
	return k
}

// the subscription index is small enough for the empty last level ("a/") at the quick depth too
func c19SubKeys() []string {
	k := []string{"a", "a/b", "a/b/c", "a/c", "b", "a/"}
	if vk.Thorough() {
		k = append(k, "b/a", "/a")
	}
	return k
}

func TestC19Topics(t *testing.T) {
	rep := vk.NewReport("C19", "C19/topics-store", "E1-bfs")
	keys := c19Keys()
	var ops []c19op
	vals := []string{"x", "y", ""} // "" is written as an empty non-nil payload
	for _, k := range keys {
		for _, v := range vals {
			ops = append(ops, c19op{"ins", k, v})
		}
	}
	for _, k := range keys {
		ops = append(ops, c19op{"rem", k, ""})
	}
	ops = append(ops, c19op{kind: "rt"})
	cfg := BFSConfig{
		New:      func() Sys { return &topicsSys{st: topics.NewTree(), model: kvModel{}, keys: keys, ops: ops} },
		NumOps:   len(ops),
		OpName:   func(i int) string { return ops[i].String() },
		Deadline: vk.Deadline(120e9, 900e9), Parallel: true,
	}
	res := BFS(cfg, rep)
	fillBFS(rep, res, "all reachable (store internal tree incl. nil/empty child maps, reference map) states of topics.Store over keys "+strings.Join(keys, ",")+
		" under Insert(k,v)/Remove(k)/dump+load; successor = replay of the shortest path on a fresh store + 1 op; non-trivial = a stored key is a strict prefix of another stored key")
	rep.Bounds["keys"] = keys
	rep.Bounds["values"] = vals
	rep.Bounds["ops"] = len(ops)
	rep.Floor("states", 50, res.States)
	rep.Floor("nontrivial", 10, res.Nontrivial)
	if err := rep.Write(); err != nil {
		t.Fatal(err)
	}
}

func TestC19Subs(t *testing.T) {
	rep := vk.NewReport("C19", "C19/subscription-index", "E1-bfs")
	keys := c19SubKeys()
	var ops []c19op
	for _, k := range keys {
		for _, v := range []string{"x", "y", ""} {
			ops = append(ops, c19op{"ups", k, v})
		}
	}
	ops = append(ops, c19op{kind: "rt"})
	cfg := BFSConfig{
		New:      func() Sys { return &subsSys{st: subscriptions.NewTree(), model: kvModel{}, keys: keys, ops: ops} },
		NumOps:   len(ops),
		OpName:   func(i int) string { return ops[i].String() },
		Deadline: vk.Deadline(120e9, 900e9), Parallel: true,
	}
	res := BFS(cfg, rep)
	fillBFS(rep, res, "all reachable (index internal tree incl. nil/empty child maps, reference map) states of subscriptions.Tree over keys "+strings.Join(keys, ",")+
		" under Upsert(k -> x|y|empty)/dump+load; non-trivial = a stored key is a strict prefix of another stored key")
	rep.Bounds["keys"] = keys
	rep.Bounds["ops"] = len(ops)
	rep.Floor("states", 50, res.States)
	rep.Floor("nontrivial", 10, res.Nontrivial)
	if err := rep.Write(); err != nil {
		t.Fatal(err)
	}
}

func fillBFS(rep *vk.Report, res BFSResult, rule string) {
	rep.States = res.States
	rep.Transitions = res.Transitions
	rep.Evaluations = res.Transitions
	rep.Paths = res.Transitions
	rep.Nontrivial = res.Nontrivial
	rep.Outcomes = res.States
	rep.Exhaustive = rep.Exhaustive && res.Exhaustive
	for _, c := range res.Caps {
		rep.Cap(c)
	}
	rep.Bounds["depth_reached"] = res.Depth
	rep.Bounds["fixpoint"] = res.Exhaustive
	rep.Rule = rule
	for _, p := range res.FirstPaths {
		rep.Sample(p)
	}
}

// Topics whose levels are empty (a trailing or leading separator, two separators in a row) are distinct full strings:
// "a/b" and "a/b/" are two topics. Both stores to fixpoint over six such keys and two values.
var c19EmptyLevelKeys = []string{"a", "a/", "a/b", "a/b/", "/a", "a//b"}

func TestC19EmptyLevels(t *testing.T) {
	rep := vk.NewReport("C19", "C19/empty-levels", "E1-bfs")
	keys := c19EmptyLevelKeys
	vals := []string{"x", ""}
	var tops, sops []c19op
	for _, k := range keys {
		for _, v := range vals {
			tops = append(tops, c19op{"ins", k, v})
			sops = append(sops, c19op{"ups", k, v})
		}
	}
	for _, k := range keys {
		tops = append(tops, c19op{"rem", k, ""})
	}
	tops = append(tops, c19op{kind: "rt"})
	sops = append(sops, c19op{kind: "rt"})
	res := BFS(BFSConfig{
		New:      func() Sys { return &topicsSys{st: topics.NewTree(), model: kvModel{}, keys: keys, ops: tops} },
		NumOps:   len(tops),
		OpName:   func(i int) string { return tops[i].String() },
		Deadline: vk.Deadline(120e9, 900e9), Parallel: true,
	}, rep)
	res2 := BFS(BFSConfig{
		New:      func() Sys { return &subsSys{st: subscriptions.NewTree(), model: kvModel{}, keys: keys, ops: sops} },
		NumOps:   len(sops),
		OpName:   func(i int) string { return sops[i].String() },
		Deadline: vk.Deadline(120e9, 900e9), Parallel: true,
	}, rep)
	res.States += res2.States
	res.Transitions += res2.Transitions
	res.Nontrivial += res2.Nontrivial
	res.Exhaustive = res.Exhaustive && res2.Exhaustive
	res.Caps = append(res.Caps, res2.Caps...)
	fillBFS(rep, res, "all reachable states of topics.Store (Insert x|empty / Remove / dump+load) and of subscriptions.Tree (Upsert x|empty / dump+load) over keys with empty levels "+strings.Join(keys, ",")+"; after every transition every key is looked up (Match / Walk), counted and iterated against a plain map")
	rep.Bounds["keys"] = keys
	rep.Floor("states", 100, res.States)
	if err := rep.Write(); err != nil {
		t.Fatal(err)
	}
}
