package e1

import (
	"fmt"
	"sort"
	"sync/atomic"
	"testing"
	"time"

	"github.com/vx-labs/wasp/v4/wasp/expiration"

	"verif/internal/vk"
)

// C04 (timer-list half): the deadline list the queue arms its exchanges in, driven directly. Every sequence of
// Insert / Delete / Expire over three keys whose deadlines share a second, arrive out of order, lie in the past or
// seconds ahead, against a map: an entry deleted (its exchange was acknowledged) is never reported expired, a pending one
// is reported exactly once, not earlier than its second and not later than the second after.

type c04lop struct {
	kind string // ins, del, exp
	key  int
	dl   time.Duration
}

var c04lkeys = []string{"A", "B", "C"}

func (o c04lop) String() string {
	switch o.kind {
	case "ins":
		return fmt.Sprintf("Insert(%s,T%+v)", c04lkeys[o.key], o.dl)
	case "del":
		return fmt.Sprintf("Delete(%s)", c04lkeys[o.key])
	}
	return fmt.Sprintf("Expire(T%+v)", o.dl)
}

func c04lalphabet() []c04lop {
	var ops []c04lop
	for k := range c04lkeys {
		for _, d := range []time.Duration{0, 300 * time.Millisecond, 600 * time.Millisecond, 3 * time.Second, -5 * time.Second} {
			ops = append(ops, c04lop{"ins", k, d})
		}
		ops = append(ops, c04lop{kind: "del", key: k})
	}
	for _, n := range []time.Duration{-2 * time.Second, 1500 * time.Millisecond, 5 * time.Second} {
		ops = append(ops, c04lop{kind: "exp", dl: n})
	}
	return ops
}

type c04lentry struct {
	deadline time.Time
	pending  bool
}

func TestC04TimerList(t *testing.T) {
	rep := vk.NewReport("C04", "C04/timer-list-sequences", "E1-seq")
	ops := c04lalphabet()
	depth := vk.Pick(4, 5)
	deadline := vk.Deadline(120e9, 900e9)
	wanted := replayWanted()
	var seqs, steps, sameSecond, staleChecked atomic.Int64
	outcomes := vk.NewSet()
	T := time.Unix(1700000000, 0).Add(100 * time.Millisecond)
	for _, impl := range []struct {
		name string
		mk   func() expiration.List
	}{{"pqlist", expiration.VerifNewPQList}, {"skiplist", expiration.VerifNewSkipList}} {
		complete := Seqs(len(ops), depth, true, deadline, func(seq []int) {
			names := make([]string, len(seq))
			for i, o := range seq {
				names[i] = ops[o].String()
			}
			if wanted != nil && !replayMatch(wanted, map[string]any{"list": impl.name, "ops": names}) {
				return
			}
			seqs.Add(1)
			l := impl.mk()
			model := map[int]*c04lentry{}
			viol := func(k int, sig, format string, a ...any) {
				rep.Violate(vk.Violation{Sig: impl.name + ":" + sig, Msg: fmt.Sprintf("[%s] after %v: ", impl.name, names[:k+1]) + fmt.Sprintf(format, a...), Replay: map[string]any{"list": impl.name, "ops": names[:k+1]}})
			}
			check := func(k int, now time.Time, got []interface{}) bool {
				seen := map[int]bool{}
				for _, g := range got {
					key, ok := g.(int)
					if !ok {
						viol(k, "c04-list-foreign-value", "Expire returned %v, which was never inserted", g)
						return false
					}
					e := model[key]
					if e == nil || !e.pending {
						viol(k, "c04-list-expired-a-deleted-entry", "Expire(T%+v) reported %s, which is not armed (deleted, already expired or never inserted)", now.Sub(T), c04lkeys[key])
						return false
					}
					if seen[key] {
						viol(k, "c04-list-expired-twice", "Expire(T%+v) reported %s twice", now.Sub(T), c04lkeys[key])
						return false
					}
					seen[key] = true
					if e.deadline.Sub(now) > time.Second {
						viol(k, "c04-list-expired-early", "Expire(T%+v) reported %s whose deadline T%+v is more than 1 s ahead", now.Sub(T), c04lkeys[key], e.deadline.Sub(T))
						return false
					}
					e.pending = false
				}
				for key, e := range model {
					if e.pending && now.Sub(e.deadline) > time.Second {
						viol(k, "c04-list-not-expired", "Expire(T%+v) did not report %s whose deadline T%+v is more than 1 s in the past", now.Sub(T), c04lkeys[key], e.deadline.Sub(T))
						return false
					}
				}
				return true
			}
			for k, oi := range seq {
				o := ops[oi]
				steps.Add(1)
				var bad any
				switch o.kind {
				case "ins":
					if e := model[o.key]; e != nil && e.pending {
						continue // the queue never arms a key twice (duplicate identifiers are refused before the list is touched)
					}
					for _, e := range model {
						if e.pending && e.deadline.Unix() == T.Add(o.dl).Unix() {
							sameSecond.Add(1)
						}
					}
					bad = vk.Recover(func() { l.Insert(o.key, T.Add(o.dl)) })
					model[o.key] = &c04lentry{deadline: T.Add(o.dl), pending: true}
				case "del":
					e := model[o.key]
					if e == nil || !e.pending {
						continue // the queue only deletes what it armed
					}
					bad = vk.Recover(func() { l.Delete(o.key, e.deadline) })
					e.pending = false
					staleChecked.Add(1)
				case "exp":
					var got []interface{}
					bad = vk.Recover(func() { got = l.Expire(T.Add(o.dl)) })
					if bad == nil && !check(k, T.Add(o.dl), got) {
						return
					}
				}
				if bad != nil {
					viol(k, "panic:"+o.kind, "panic: %v", bad)
					return
				}
			}
			// everything still armed fires at a sweep far in the future, nothing else does
			var got []interface{}
			if p := vk.Recover(func() { got = l.Expire(T.Add(1000 * time.Second)) }); p != nil {
				viol(len(seq)-1, "panic:final-sweep", "panic: %v", p)
				return
			}
			if !check(len(seq)-1, T.Add(1000*time.Second), got) {
				return
			}
			var sig []string
			for key, e := range model {
				sig = append(sig, fmt.Sprintf("%d:%v:%d", key, e.pending, e.deadline.Sub(T)/time.Millisecond))
			}
			sort.Strings(sig)
			outcomes.AddString(impl.name + fmt.Sprint(sig))
		})
		if !complete {
			rep.Cap("deadline")
		}
	}
	// second family: many distinct seconds. Every arrival order of 6 and of 7 deadlines lying in different seconds, one key
	// each, then one sweep at each of 8 instants (fresh list per case), then the far-future sweep: whatever the list keeps
	// its seconds in (a heap, a skip list), the order of arrival must not decide what a sweep finds due.
	var orderCases int64
	ladder := []time.Duration{0, 1 * time.Second, 3 * time.Second, 7 * time.Second, 10 * time.Second, 11 * time.Second, 14 * time.Second}
	sweeps := []time.Duration{-1500 * time.Millisecond, 1500 * time.Millisecond, 2500 * time.Millisecond, 4500 * time.Millisecond, 8500 * time.Millisecond, 12500 * time.Millisecond, 15500 * time.Millisecond, 5500 * time.Millisecond}
	for _, impl := range []struct {
		name string
		mk   func() expiration.List
	}{{"pqlist", expiration.VerifNewPQList}, {"skiplist", expiration.VerifNewSkipList}} {
		var perms [][]int
		for _, p := range permutations(len(ladder)) {
			perms = append(perms, p, p[:len(p)-1])
		}
		vk.ParallelFor(len(perms), func(pi int) {
			perm := perms[pi]
			for _, sw := range sweeps {
				names := []string{}
				for _, k := range perm {
					names = append(names, fmt.Sprintf("Insert(k%d,T%+v)", k, ladder[k]))
				}
				names = append(names, fmt.Sprintf("Expire(T%+v)", sw))
				if wanted != nil && !replayMatch(wanted, map[string]any{"list": impl.name, "ops": names}) {
					continue
				}
				atomic.AddInt64(&orderCases, 1)
				l := impl.mk()
				for _, k := range perm {
					l.Insert(k, T.Add(ladder[k]))
				}
				got := map[int]int{}
				for _, g := range l.Expire(T.Add(sw)) {
					got[g.(int)]++
				}
				bad := ""
				for _, k := range perm {
					due := sw-ladder[k] > time.Second
					early := ladder[k]-sw > time.Second
					switch {
					case got[k] > 1:
						bad = fmt.Sprintf("reported k%d %d times", k, got[k])
					case due && got[k] == 0:
						bad = fmt.Sprintf("did not report k%d, due since T%+v", k, ladder[k])
					case early && got[k] != 0:
						bad = fmt.Sprintf("reported k%d, not due before T%+v", k, ladder[k])
					}
				}
				if bad == "" {
					rest := map[int]int{}
					for _, g := range l.Expire(T.Add(1000 * time.Second)) {
						rest[g.(int)]++
					}
					for _, k := range perm {
						if got[k]+rest[k] != 1 {
							bad = fmt.Sprintf("k%d was reported %d time(s) by the sweep and %d by the final sweep at T+1000s", k, got[k], rest[k])
						}
					}
				}
				if bad != "" {
					rep.Violate(vk.Violation{Sig: impl.name + ":c04-list-arrival-order", Msg: fmt.Sprintf("[%s] after %v: the sweep %s", impl.name, names, bad), Replay: map[string]any{"list": impl.name, "ops": names}})
				}
			}
		})
	}
	// third family: a long ladder. 40 entries one second apart, armed in order, reversed and interleaved, then ONE sweep
	// at each of several instants (a sweeper that fell behind): everything due must be reported by that one sweep.
	for _, impl := range []struct {
		name string
		mk   func() expiration.List
	}{{"pqlist", expiration.VerifNewPQList}, {"skiplist", expiration.VerifNewSkipList}} {
		for oi, order := range []string{"ascending", "descending", "odd-then-even"} {
			for _, sw := range []time.Duration{10500 * time.Millisecond, 25500 * time.Millisecond, 60 * time.Second} {
				var idx []int
				switch oi {
				case 0:
					for k := 0; k < 40; k++ {
						idx = append(idx, k)
					}
				case 1:
					for k := 39; k >= 0; k-- {
						idx = append(idx, k)
					}
				default:
					for k := 1; k < 40; k += 2 {
						idx = append(idx, k)
					}
					for k := 0; k < 40; k += 2 {
						idx = append(idx, k)
					}
				}
				desc := map[string]any{"list": impl.name, "ops": []string{fmt.Sprintf("40 entries at T+0..39s armed %s", order), fmt.Sprintf("Expire(T%+v)", sw)}}
				if wanted != nil && !replayMatch(wanted, desc) {
					continue
				}
				orderCases++
				l := impl.mk()
				for _, k := range idx {
					l.Insert(k, T.Add(time.Duration(k)*time.Second))
				}
				got := map[int]int{}
				for _, g := range l.Expire(T.Add(sw)) {
					got[g.(int)]++
				}
				for k := 0; k < 40; k++ {
					due := sw-time.Duration(k)*time.Second > time.Second
					if due && got[k] != 1 {
						rep.Violate(vk.Violation{Sig: impl.name + ":c04-list-overdue-not-reported", Msg: fmt.Sprintf("[%s] 40 entries one second apart (armed %s), one sweep at T%+v: entry k%d (due since T+%ds) was reported %d time(s)", impl.name, order, sw, k, k, got[k]), Replay: desc})
						break
					}
				}
			}
		}
	}
	rep.Extra["arrival_order_cases"] = orderCases
	rep.Floor("arrival_orders", 1000, orderCases)
	rep.Bounds["arrival_orders"] = "every order of 6 and 7 deadlines in distinct seconds (T+0,1,3,7,10,11,14 s) x one sweep at 8 instants, fresh list each"
	rep.Evaluations = seqs.Load() + orderCases
	rep.Paths = seqs.Load() + orderCases
	rep.Transitions = steps.Load()
	rep.States = outcomes.Len()
	rep.Outcomes = outcomes.Len()
	rep.Nontrivial = outcomes.Len()
	rep.Extra["inserts_into_a_second_that_already_holds_an_entry"] = sameSecond.Load()
	rep.Extra["deletes_of_armed_entries"] = staleChecked.Load()
	rep.Bounds["depth"] = depth
	names := []string{}
	for _, o := range ops {
		names = append(names, o.String())
	}
	rep.Bounds["alphabet"] = names
	rep.Rule = "every sequence of length d over the alphabet on a fresh deadline list (production heap-of-buckets list, and the skip-list), with the call discipline of the acknowledgement queue (a key is armed at most once at a time, only armed keys are deleted), stepped against a map; a final sweep at T+1000s must report exactly what is still armed; states = distinct final (key, armed, deadline) vectors"
	rep.Floor("same_second", 100, sameSecond.Load())
	rep.Floor("deletes", 100, staleChecked.Load())
	rep.Floor("outcomes", 10, outcomes.Len())
	rep.Sample([]string{ops[1].String(), ops[6].String(), ops[5].String(), "Expire(T+1.5s)"})
	if err := rep.Write(); err != nil {
		t.Fatal(err)
	}
}
