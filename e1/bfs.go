package e1

import (
	"encoding/json"
	"fmt"
	"os"
	"sync"
	"sync/atomic"
	"time"

	"verif/internal/vk"
)

// Sys is one fresh instance of "implementation + reference model in lock-step".
type Sys interface {
	// Apply executes operation op on the implementation and the reference model and compares
	// everything the property lets an observer see. A non-nil result is a violation.
	Apply(op int) *vk.Violation
	// Key is the canonical state: the complete implementation state that influences future
	// behaviour plus the model state. Two Sys with equal keys have equal futures.
	Key() string
	// Nontrivial reports whether the current state exercises the property's mechanism.
	Nontrivial() bool
}

// Finalizer is an optional destructive end-of-state check, run once per distinct state after Key
// and Nontrivial have been evaluated.
type Finalizer interface{ Final() *vk.Violation }

// BFSConfig drives an explicit-state breadth-first search. Live objects cannot be cloned, so the
// successor of a state is produced by replaying its (shortest) path on a fresh instance + 1 op.
type BFSConfig struct {
	New       func() Sys
	NumOps    int
	OpName    func(op int) string
	MaxDepth  int // 0 = to fixpoint
	MaxStates int64
	Deadline  time.Time
	Parallel  bool
	// ExpandViolating: continue exploring behind a violating transition (the model has already
	// followed the specification, so later steps are judged against the specified state).
	ExpandViolating bool
}

type BFSResult struct {
	States, Transitions, Nontrivial int64
	Depth                           int
	Exhaustive                      bool
	Caps                            []string
	FirstPaths                      [][]string
}

func names(cfg *BFSConfig, path []int) []string {
	out := make([]string, len(path))
	for i, o := range path {
		out[i] = cfg.OpName(o)
	}
	return out
}

// BFS explores all states reachable from New() and reports violations into rep.
func BFS(cfg BFSConfig, rep *vk.Report) BFSResult {
	if ops, ok := replayOps(); ok {
		return replayBFS(cfg, rep, ops)
	}
	res := BFSResult{Exhaustive: true}
	seen := vk.NewSet()
	init := cfg.New()
	seen.AddString(init.Key())
	res.States = 1
	frontier := [][]int{{}}
	var trans, nontriv atomic.Int64
	for depth := 0; len(frontier) > 0; depth++ {
		if cfg.MaxDepth > 0 && depth >= cfg.MaxDepth {
			res.Exhaustive = false
			res.Caps = append(res.Caps, fmt.Sprintf("max_depth=%d", cfg.MaxDepth))
			break
		}
		res.Depth = depth + 1
		var mu sync.Mutex
		var next [][]int
		stop := atomic.Bool{}
		work := func(i int) {
			if stop.Load() {
				return
			}
			if !cfg.Deadline.IsZero() && time.Now().After(cfg.Deadline) {
				stop.Store(true)
				return
			}
			path := frontier[i]
			for op := 0; op < cfg.NumOps; op++ {
				s := cfg.New()
				bad := false
				for _, o := range path {
					if v := s.Apply(o); v != nil && !cfg.ExpandViolating {
						bad = true // cannot happen: violating transitions are not expanded
						break
					}
				}
				if bad {
					continue
				}
				var v *vk.Violation
				full := append(append([]int{}, path...), op)
				if p := vk.Recover(func() { v = s.Apply(op) }); p != nil {
					v = &vk.Violation{Sig: "panic:" + opKind(cfg.OpName(op)), Msg: fmt.Sprintf("panic: %v", p)}
				}
				trans.Add(1)
				if v != nil {
					if v.Replay == nil {
						v.Replay = map[string]any{"ops": names(&cfg, full)}
					}
					v.Msg = fmt.Sprintf("after %v: %s", names(&cfg, full), v.Msg)
					rep.Violate(*v)
					if !cfg.ExpandViolating {
						continue
					}
				}
				var key string
				if p := vk.Recover(func() { key = s.Key() }); p != nil {
					rep.Violate(vk.Violation{Sig: "panic-observe:" + opKind(cfg.OpName(op)), Msg: fmt.Sprintf("after %v: panic while observing: %v", names(&cfg, full), p),
						Replay: map[string]any{"ops": names(&cfg, full)}})
					continue
				}
				if seen.AddString(key) {
					nt := s.Nontrivial()
					if fz, ok := s.(Finalizer); ok {
						var fv *vk.Violation
						if p := vk.Recover(func() { fv = fz.Final() }); p != nil {
							fv = &vk.Violation{Sig: "panic-final:" + opKind(cfg.OpName(op)), Msg: fmt.Sprintf("panic: %v", p)}
						}
						if fv != nil {
							fv.Replay = map[string]any{"ops": names(&cfg, full)}
							fv.Msg = fmt.Sprintf("after %v: %s", names(&cfg, full), fv.Msg)
							rep.Violate(*fv)
						}
					}
					if nt {
						nontriv.Add(1)
					}
					mu.Lock()
					next = append(next, full)
					if len(res.FirstPaths) < 4 && len(full) >= 3 {
						res.FirstPaths = append(res.FirstPaths, names(&cfg, full))
					}
					mu.Unlock()
				}
			}
		}
		if cfg.Parallel {
			vk.ParallelFor(len(frontier), work)
		} else {
			for i := range frontier {
				work(i)
			}
		}
		if stop.Load() {
			res.Exhaustive = false
			res.Caps = append(res.Caps, "deadline")
			break
		}
		frontier = next
		if cfg.MaxStates > 0 && seen.Len() > cfg.MaxStates {
			res.Exhaustive = false
			res.Caps = append(res.Caps, fmt.Sprintf("max_states=%d", cfg.MaxStates))
			break
		}
	}
	res.States = seen.Len()
	res.Transitions = trans.Load()
	res.Nontrivial = nontriv.Load()
	return res
}

// Seqs enumerates every sequence over [0,n) of length exactly d and calls f (in parallel when asked).
// The first element selects the work item so that 16 workers share the space evenly for n>=16; for
// small n the first two elements do.
func Seqs(n, d int, parallel bool, deadline time.Time, f func(seq []int)) (complete bool) {
	if d == 0 {
		f(nil)
		return true
	}
	pre := 1
	if d >= 2 {
		pre = 2
	}
	total := 1
	for i := 0; i < pre; i++ {
		total *= n
	}
	var stop atomic.Bool
	work := func(i int) {
		if stop.Load() {
			return
		}
		seq := make([]int, d)
		x := i
		for k := pre - 1; k >= 0; k-- {
			seq[k] = x % n
			x /= n
		}
		var rec func(pos int)
		cnt := 0
		rec = func(pos int) {
			if pos == d {
				cnt++
				if cnt%1024 == 0 && !deadline.IsZero() && time.Now().After(deadline) {
					stop.Store(true)
				}
				f(seq)
				return
			}
			for o := 0; o < n && !stop.Load(); o++ {
				seq[pos] = o
				rec(pos + 1)
			}
		}
		rec(pre)
	}
	if parallel {
		vk.ParallelFor(total, work)
	} else {
		for i := 0; i < total; i++ {
			work(i)
		}
	}
	return !stop.Load()
}

func opKind(name string) string {
	for i, c := range name {
		if c == '(' {
			return name[:i]
		}
	}
	return name
}

// SeqsShard enumerates (single-threaded) the sequences of length d over [0,n) that belong to shard sh:
// the first min(d,3) operations select the shard.
func SeqsShard(n, d int, sh vk.Shard, deadline time.Time, f func(seq []int)) (complete bool) {
	pre := d
	if pre > 3 {
		pre = 3
	}
	total := 1
	for i := 0; i < pre; i++ {
		total *= n
	}
	seq := make([]int, d)
	cnt := 0
	stop := false
	var rec func(pos int)
	rec = func(pos int) {
		if pos == d {
			cnt++
			if cnt%256 == 0 && !deadline.IsZero() && time.Now().After(deadline) {
				stop = true
			}
			f(seq)
			return
		}
		for o := 0; o < n && !stop; o++ {
			seq[pos] = o
			rec(pos + 1)
		}
	}
	for i := 0; i < total && !stop; i++ {
		if !sh.Mine(i) {
			continue
		}
		x := i
		for k := pre - 1; k >= 0; k-- {
			seq[k] = x % n
			x /= n
		}
		rec(pre)
	}
	return !stop
}

// replayOps returns the operation list of the replay file named by VERIF_REPLAY, if any.
func replayOps() ([]string, bool) {
	f := os.Getenv("VERIF_REPLAY")
	if f == "" {
		return nil, false
	}
	b, err := os.ReadFile(f)
	if err != nil {
		return nil, false
	}
	var body struct {
		Replay struct {
			Ops []string `json:"ops"`
		} `json:"replay"`
	}
	if json.Unmarshal(b, &body) != nil || len(body.Replay.Ops) == 0 {
		return nil, false
	}
	return body.Replay.Ops, true
}

// replayBFS re-executes exactly one recorded operation list five times (no search); the observations must be identical.
func replayBFS(cfg BFSConfig, rep *vk.Report, ops []string) BFSResult {
	res := BFSResult{Exhaustive: true, States: 1}
	idx := map[string]int{}
	for i := 0; i < cfg.NumOps; i++ {
		idx[cfg.OpName(i)] = i
	}
	var path []int
	for _, o := range ops {
		i, ok := idx[o]
		if !ok {
			return res // not an operation of this system (another range / phase): nothing to replay here
		}
		path = append(path, i)
	}
	var first string
	for k := 0; k < 5; k++ {
		s := cfg.New()
		outcome := "no violation"
		for n, o := range path {
			var v *vk.Violation
			if p := vk.Recover(func() { v = s.Apply(o) }); p != nil {
				v = &vk.Violation{Sig: "panic:" + opKind(cfg.OpName(o)), Msg: fmt.Sprintf("panic: %v", p)}
			}
			res.Transitions++
			if v == nil && n == len(path)-1 {
				if fz, ok := s.(Finalizer); ok {
					vk.Recover(func() { s.Key() })
					if p := vk.Recover(func() { v = fz.Final() }); p != nil {
						v = &vk.Violation{Sig: "panic-final", Msg: fmt.Sprintf("panic: %v", p)}
					}
				}
			}
			if v != nil {
				outcome = v.Sig + ": " + v.Msg
				v.Msg = fmt.Sprintf("replay of %v: %s", ops[:n+1], v.Msg)
				v.Replay = map[string]any{"ops": ops}
				rep.Violate(*v)
				break
			}
		}
		if k == 0 {
			first = outcome
			fmt.Printf("replay of %v -> %s\n", ops, outcome)
		} else if outcome != first {
			rep.HarnessError("replay diverged: run %d gave %q, first run gave %q", k, outcome, first)
		}
	}
	return res
}
