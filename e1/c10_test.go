package e1

import (
	"bytes"
	"fmt"
	"strings"
	"testing"
	"time"

	"verif/internal/vk"
)

// C10: full-state exchange. Histories on A and B, every subset of the gossip between them lost,
// then LocalState -> MergeRemoteState in one or both directions; oracle = LWW over the decoded
// broadcasts each node has seen (its own + the delivered ones).

func c10alphabet() []dop {
	var ops []dop
	add := func(name string, f func(n *dnode)) { ops = append(ops, dop{name, f, false}) }
	add("sess.Create(s1)", func(n *dnode) { n.st.SessionMetadatas().Create("s1", "c-"+n.name, 1, nil, "m") })
	add("sess.Delete(s1)", func(n *dnode) { n.st.SessionMetadatas().Delete("s1") })
	// s2 is the session of a client that connected with an empty client identifier (the broker stores it verbatim)
	add("sess.Create(s2)", func(n *dnode) { n.st.SessionMetadatas().Create("s2", "", 1, pub("w", "bye"), "m") })
	add("subs.Create(s1,m/a)", func(n *dnode) { n.st.Subscriptions().Create("s1", []byte("m/a"), int32(n.peer)%3) })
	add("subs.Delete(s1,m/a)", func(n *dnode) { n.st.Subscriptions().Delete("s1", []byte("m/a")) })
	add("subs.Create(s2,m/a/b)", func(n *dnode) { n.st.Subscriptions().Create("s2", []byte("m/a/b"), 1) })
	add("topics.Set(m/t)", func(n *dnode) { n.st.Topics().Set(pub("m/t", "from-"+n.name)) })
	add("topics.Delete(m/t)", func(n *dnode) { n.st.Topics().Delete([]byte("m/t")) })
	add("subs.Create(s2,m/a)", func(n *dnode) { n.st.Subscriptions().Create("s2", []byte("m/a"), 2) })
	// bulk removals: what the other node hosts (a failure verdict on it), and everything of one session
	add("subs.DeletePeer(other node)", func(n *dnode) { n.st.Subscriptions().DeletePeer(3 - n.peer) })
	add("subs.DeleteSession(s1)", func(n *dnode) { n.st.Subscriptions().DeleteSession("s1") })
	add("topics.Set(m/t/u)", func(n *dnode) { n.st.Topics().Set(pub("m/t/u", "from-"+n.name)) })
	return ops
}

func histories(n, max int) [][]int {
	out := [][]int{{}}
	cur := [][]int{{}}
	for d := 1; d <= max; d++ {
		var next [][]int
		for _, h := range cur {
			for o := 0; o < n; o++ {
				next = append(next, append(append([]int{}, h...), o))
			}
		}
		out = append(out, next...)
		cur = next
	}
	return out
}

const (
	farAhead  = int64(2*3_600_000_000_000 + 5)
	farBehind = int64(-9*3_600_000_000_000 + 5)
)

func TestC10FullState(t *testing.T) {
	ops := c10alphabet()
	nops := len(ops) // the whole alphabet at both depths (the last entries are the retained topics that share a prefix)
	ops = ops[:nops]
	maxA, maxB := 3, vk.Pick(1, 2)
	shardedPhase(t, "C10", "C10/full-state-exchange", "E1-enum", "TestC10FullState", func(sh vk.Shard, rep *vk.Report) {
		dInstallClock()
		wanted := replayWanted()
		deadline := vk.Deadline(150e9, 1200e9)
		hA := histories(len(ops), maxA)
		hB := histories(len(ops), maxB)
		states := vk.NewSet()
		nontriv := vk.NewSet()
		var cases, steps, tombUnseen int64
		caseNo := 0
		isSubOp := func(h []int) bool {
			for _, o := range h {
				if strings.HasPrefix(ops[o].name, "subs.") {
					return true
				}
			}
			return false
		}
	outer:
		// B's clock two hours ahead of A's (one hour ahead of the wall clock) or nine hours behind: stamps are wall-clock
		// readings, and whatever compares them with the local wall clock must not make a view depend on it
		for _, bOff := range []int64{0, -10, farAhead, farBehind} {
			for ia, ha := range hA {
				if !sh.Mine(ia) {
					continue
				}
				if (bOff == farAhead || bOff == farBehind) && len(ha) > vk.Pick(2, 3) {
					continue // far-apart clocks: shorter histories of A in the quick depth (cost)
				}
				for _, hb := range hB {
					// B's clock exactly one tick behind: its next stamp equals the one A just used. Only for sessions and
					// retained messages, whose local writes are bumped past what the writer has seen (subscription
					// stamps are plain, so this offset would be a genuine tie, which the statement excludes)
					if bOff == -10 && (isSubOp(ha) || isSubOp(hb) || len(hb) == 0) {
						continue
					}
					for lossA := 0; lossA < 1<<len(ha); lossA++ {
						if bOff == -10 && lossA != 0 {
							continue // B must have seen A's stamps, or equal stamps on one key are a genuine tie
						}
						for lossB := 0; lossB < 1<<len(hb); lossB++ {
							for mode := 0; mode < 3; mode++ {
								caseNo++
								if caseNo%512 == 0 && timeUp(deadline) {
									rep.Cap("deadline")
									break outer
								}
								// in half of the cases an hour passes between the last change and the exchange (the periodic exchange
								// of a quiet cluster): what was changed long ago is owed to a lagging node all the same
								aged := (lossA+lossB+mode+len(ha))%2 == 0
								if wanted != nil {
									var an0, bn0 []string
									for _, oi := range ha {
										an0 = append(an0, ops[oi].name)
									}
									for _, oi := range hb {
										bn0 = append(bn0, ops[oi].name)
									}
									cand := map[string]any{"A_ops": an0, "B_ops": bn0, "A_gossip_lost_mask": lossA, "B_gossip_lost_mask": lossB, "mode": []string{"A->B", "B->A", "both"}[mode], "B_clock_offset": bOff}
									if aged {
										cand["one_hour_passes_before_the_exchange"] = true
									}
									cand2 := map[string]any{}
									for k, v := range cand {
										cand2[k] = v
									}
									cand2["snapshot_served_before_remote_changes"] = true
									if !replayMatch(wanted, cand) && !replayMatch(wanted, cand2) {
										continue
									}
								}
								cases++
								dResetClock()
								a := newDNode("A", 1, 0)
								b := newDNode("B", 2, bOff)
								var KA, KB []dEntry
								desc := map[string]any{}
								var an, bn []string
								ok := true
								for i, oi := range ha {
									an = append(an, ops[oi].name)
									var msgs [][]byte
									if p := vk.Recover(func() { msgs = a.do(func() { ops[oi].run(a) }) }); p != nil {
										rep.Violate(vk.Violation{Sig: "c10-panic", Msg: fmt.Sprint(p)})
										ok = false
										break
									}
									steps++
									for _, m := range msgs {
										es, _ := decodeBroadcast(m)
										KA = append(KA, es...)
										if lossA&(1<<i) == 0 {
											b.recv(m)
											KB = append(KB, es...)
										}
									}
								}
								if !ok {
									continue
								}
								// both nodes have already served a snapshot to a third node before the other side's gossip arrives
								// (whatever a node caches for its snapshots must not go stale when it merges)
								var earlySnap, earlyCopy []byte
								if (lossA+lossB+mode)%2 == 1 || vk.Thorough() {
									earlySnap = a.st.Distributor().LocalState(false)
									earlyCopy = append([]byte{}, earlySnap...)
									b.st.Distributor().LocalState(false)
									desc["snapshot_served_before_remote_changes"] = true
								}
								for i, oi := range hb {
									bn = append(bn, ops[oi].name)
									msgs := b.do(func() { ops[oi].run(b) })
									steps++
									for _, m := range msgs {
										es, _ := decodeBroadcast(m)
										KB = append(KB, es...)
										if lossB&(1<<i) == 0 {
											a.recv(m)
											KA = append(KA, es...)
										}
									}
								}
								desc["A_ops"] = an
								desc["B_ops"] = bn
								desc["A_gossip_lost_mask"] = lossA
								desc["B_gossip_lost_mask"] = lossB
								desc["mode"] = []string{"A->B", "B->A", "both"}[mode]
								desc["B_clock_offset"] = bOff
								if aged {
									desc["one_hour_passes_before_the_exchange"] = true
									dTick += int64(time.Hour) / 10
								}
								// sanity of the reference itself: before any exchange each node lists LWW of what it has seen
								if got, want := a.list().String(), lwwListing(KA).String(); got != want {
									rep.Violate(vk.Violation{Sig: "c10-view-is-not-newest-of-what-was-seen", Msg: fmt.Sprintf("%v: before any exchange A lists %s; the newest entries among its own changes and the gossip it received give %s", desc, got, want), Replay: desc})
									continue
								}
								if got, want := b.list().String(), lwwListing(KB).String(); got != want {
									rep.Violate(vk.Violation{Sig: "c10-view-is-not-newest-of-what-was-seen", Msg: fmt.Sprintf("%v: before any exchange B lists %s; the newest entries among its own changes and the gossip it received give %s", desc, got, want), Replay: desc})
									continue
								}
								// non-trivial: X holds a removal Y has not seen, and >=2 entries of a kind
								if hasUnseenTombstone(KA, KB) || hasUnseenTombstone(KB, KA) {
									tombUnseen++
									nontriv.AddString(fmt.Sprint(desc))
								}
								check := func(from, to *dnode, Kfrom []dEntry, Kto *[]dEntry, label string) bool {
									snap := from.st.Distributor().LocalState(false)
									// a snapshot already handed out (the peer may still be reading it) is not touched by assembling the next one
									if earlySnap != nil && !bytes.Equal(earlySnap, earlyCopy) {
										rep.Violate(vk.Violation{Sig: "c10-earlier-snapshot-overwritten", Msg: fmt.Sprintf("%v: the bytes of a snapshot A handed out earlier changed when a later snapshot was assembled", desc), Replay: desc})
										return false
									}
									fresh := newDNode("F", 9, 0)
									fresh.st.Distributor().MergeRemoteState(snap, true)
									if got, want := fresh.list().String(), from.list().String(); got != want {
										rep.Violate(vk.Violation{Sig: "c10-fresh-node-differs", KF: "",
											Msg:    fmt.Sprintf("%v: a fresh node merging %s's snapshot lists %s but %s lists %s", desc, from.name, got, from.name, want),
											Replay: desc})
										return false
									}
									to.st.Distributor().MergeRemoteState(snap, false)
									*Kto = append(*Kto, Kfrom...)
									if got, want := to.list().String(), lwwListing(*Kto).String(); got != want {
										sig := "c10-lagging-node-not-updated"
										rep.Violate(vk.Violation{Sig: sig,
											Msg:    fmt.Sprintf("%v: after %s, %s lists %s; newest-entry-wins over both nodes' knowledge gives %s", desc, label, to.name, got, want),
											Replay: desc})
										return false
									}
									return true
								}
								good := true
								switch mode {
								case 0:
									good = check(a, b, KA, &KB, "A->B")
								case 1:
									good = check(b, a, KB, &KA, "B->A")
								case 2:
									good = check(a, b, KA, &KB, "A->B") && check(b, a, KB, &KA, "B->A")
									if good {
										if la, lb := a.list().String(), b.list().String(); la != lb {
											rep.Violate(vk.Violation{Sig: "c10-not-identical-after-both", Msg: fmt.Sprintf("%v: after exchanging snapshots both ways A lists %s and B lists %s", desc, la, lb), Replay: desc})
										}
									}
								}
								states.AddString(a.list().String() + "||" + b.list().String())
								if cases%50000 == 1 {
									rep.Sample(desc)
								}
							}
						}
					}
				}
			}
		}
		rep.Evaluations = cases
		rep.Paths = cases
		rep.Transitions = steps + cases
		rep.States = states.Len()
		rep.Nontrivial = nontriv.Len()
		rep.Extra["cases_with_removal_unseen_by_peer"] = float64(tombUnseen)
		vk.WriteHashes("states", "C10/full-state-exchange", states)
		vk.WriteHashes("nontrivial", "C10/full-state-exchange", nontriv)
	}, func(rep *vk.Report) {
		rep.Outcomes = rep.States
		names := []string{}
		for _, o := range ops {
			names = append(names, o.name)
		}
		rep.Bounds["alphabet"] = names
		rep.Bounds["max_ops_A"] = maxA
		rep.Bounds["max_ops_B"] = maxB
		rep.Bounds["gossip_loss"] = "every subset of the broadcasts in each direction"
		rep.Bounds["exchange_modes"] = []string{"A->B", "B->A", "both"}
		rep.Rule = "every (history on A, history on B, lost-gossip subset, exchange mode); oracle = newest-entry-wins (removals included) over the decoded broadcasts each node has seen; states = distinct final (A listing, B listing) pairs; non-trivial = cases where one node holds a removal the other has not seen"
		rep.Floor("removal_unseen", 50, int64(rep.Extra["cases_with_removal_unseen_by_peer"].(float64)))
		rep.Floor("states", 50, rep.States)
	})
}

func hasUnseenTombstone(Kx, Ky []dEntry) bool {
	bx := map[string]dEntry{}
	for _, e := range Kx {
		k := e.kind + ":" + e.key
		if o, ok := bx[k]; !ok || e.ts() > o.ts() {
			bx[k] = e
		}
	}
	by := map[string]dEntry{}
	for _, e := range Ky {
		k := e.kind + ":" + e.key
		if o, ok := by[k]; !ok || e.ts() > o.ts() {
			by[k] = e
		}
	}
	for k, e := range bx {
		if !e.visible() {
			if o, ok := by[k]; ok && o.visible() && o.ts() < e.ts() {
				return true
			}
		}
	}
	return false
}
