package e1

import (
	"fmt"
	"sort"
	"sync/atomic"
	"testing"
	"time"

	"github.com/vx-labs/mqtt-protocol/packet"
	"github.com/vx-labs/wasp/v4/wasp/ack"
	"github.com/vx-labs/wasp/v4/wasp/expiration"

	"verif/internal/vk"
)

// C04 (sequential half): every register/acknowledge/sweep sequence up to depth d over colliding
// keys, equal / same-second / past / future deadlines, wrong types and unknown identifiers, on the
// real ack.Queue over each timeout-list implementation, against a map reference model.

type c04kind struct {
	name  string
	mk    func(id int32) packet.Packet // packet to register
	right func(id int32) packet.Packet // the acknowledgement it waits for
	wrong func(id int32) packet.Packet // an acknowledgement type it does not wait for
}

var c04kinds = []c04kind{
	{"pub1",
		func(id int32) packet.Packet {
			return &packet.Publish{Header: &packet.Header{Qos: 1}, MessageId: id, Topic: []byte("t")}
		},
		func(id int32) packet.Packet { return &packet.PubAck{Header: &packet.Header{}, MessageId: id} },
		func(id int32) packet.Packet { return &packet.PubComp{Header: &packet.Header{}, MessageId: id} }},
	{"pubrel",
		func(id int32) packet.Packet { return &packet.PubRel{Header: &packet.Header{}, MessageId: id} },
		func(id int32) packet.Packet { return &packet.PubComp{Header: &packet.Header{}, MessageId: id} },
		func(id int32) packet.Packet { return &packet.PubAck{Header: &packet.Header{}, MessageId: id} }},
	{"pub2",
		func(id int32) packet.Packet {
			return &packet.Publish{Header: &packet.Header{Qos: 2}, MessageId: id, Topic: []byte("t")}
		},
		func(id int32) packet.Packet { return &packet.PubRec{Header: &packet.Header{}, MessageId: id} },
		func(id int32) packet.Packet { return &packet.PubAck{Header: &packet.Header{}, MessageId: id} }},
	{"pubrec",
		func(id int32) packet.Packet { return &packet.PubRec{Header: &packet.Header{}, MessageId: id} },
		func(id int32) packet.Packet { return &packet.PubRel{Header: &packet.Header{}, MessageId: id} },
		func(id int32) packet.Packet { return &packet.PubComp{Header: &packet.Header{}, MessageId: id} }},
}

type c04key struct {
	prefix string
	id     int32
}

func (k c04key) String() string { return fmt.Sprintf("%s/%d", k.prefix, k.id) }

// same session / other id, other session / same id, and a pair (s,11) vs (s1,1) whose session text and identifier digits
// run together into the same characters: the queue must keep all three apart whatever it derives its key from
var c04keys = []c04key{{"s", 1}, {"s", 11}, {"s1", 1}}

type c04op struct {
	kind string // ins, ack, wrong, unk, sweep
	key  int
	pk   int           // packet kind for ins
	dl   time.Duration // deadline offset for ins, now offset for sweep
}

func (o c04op) String() string {
	switch o.kind {
	case "ins":
		return fmt.Sprintf("Insert(%s,%s,T%+v)", c04keys[o.key], c04kinds[o.pk].name, o.dl)
	case "ack":
		return fmt.Sprintf("Ack(%s,right-type)", c04keys[o.key])
	case "wrong":
		return fmt.Sprintf("Ack(%s,wrong-type)", c04keys[o.key])
	case "unk":
		return "Ack(s/9,unknown-id)"
	}
	return fmt.Sprintf("Sweep(T%+v)", o.dl)
}

func c04alphabet(nkinds int) []c04op {
	var ops []c04op
	for k := range c04keys {
		for pk := 0; pk < nkinds; pk++ {
			for _, d := range []time.Duration{0, 300 * time.Millisecond, 3 * time.Second, -5 * time.Second} {
				ops = append(ops, c04op{kind: "ins", key: k, pk: pk, dl: d})
			}
		}
	}
	for k := range c04keys {
		ops = append(ops, c04op{kind: "ack", key: k}, c04op{kind: "wrong", key: k})
	}
	ops = append(ops, c04op{kind: "unk"})
	// -50 ms and +250 ms fall inside the second of the deadlines T / T+300 ms: the oracle demands nothing of such a
	// sweep (deadlines are honoured to the second) except that what it leaves pending can still be resolved later
	for _, n := range []time.Duration{-2 * time.Second, 1500 * time.Millisecond, 5 * time.Second, -50 * time.Millisecond, 250 * time.Millisecond} {
		ops = append(ops, c04op{kind: "sweep", dl: n})
	}
	return ops
}

type c04reg struct {
	key      int
	pk       int
	deadline time.Time
	pkt      packet.Packet
	pending  bool
	acked    int
	expired  int
}

type c04sys struct {
	q     ack.Queue
	T     time.Time
	regs  []*c04reg
	cur   map[int]*c04reg // key -> pending registration
	inCB  []string        // callback-level errors collected during a call
	stats *c04stats
}

type c04stats struct {
	acked, expired, dup, wrong, sameBucket atomic.Int64
}

func (s *c04sys) callback(r *c04reg) ack.Callback {
	return func(expired bool, stored, received packet.Packet) {
		if stored != r.pkt {
			s.inCB = append(s.inCB, fmt.Sprintf("callback for %s got a stored packet that is not the registered one", c04keys[r.key]))
		}
		if expired {
			r.expired++
		} else {
			r.acked++
		}
	}
}

func (s *c04sys) outcomes(r *c04reg) int { return r.acked + r.expired }

func (s *c04sys) snapshot() []int {
	out := make([]int, 0, 2*len(s.regs))
	for _, r := range s.regs {
		out = append(out, r.acked, r.expired)
	}
	return out
}

// others checks that no registration except `allowed` changed its outcome counters since snap.
func (s *c04sys) others(snap []int, allowed map[*c04reg]bool, what string) *vk.Violation {
	for i, r := range s.regs {
		if 2*i+1 >= len(snap) {
			break
		}
		if allowed[r] {
			continue
		}
		if r.acked != snap[2*i] || r.expired != snap[2*i+1] {
			return &vk.Violation{Sig: "c04-other-entry-resolved", Msg: fmt.Sprintf("%s resolved another entry: %s (registered T%+v) acked %d->%d expired %d->%d",
				what, c04keys[r.key], r.deadline.Sub(s.T), snap[2*i], r.acked, snap[2*i+1], r.expired)}
		}
	}
	return nil
}

func (s *c04sys) Apply(o c04op) *vk.Violation {
	s.inCB = s.inCB[:0]
	snap := s.snapshot()
	var v *vk.Violation
	switch o.kind {
	case "ins":
		k := c04keys[o.key]
		pkt := c04kinds[o.pk].mk(k.id)
		r := &c04reg{key: o.key, pk: o.pk, deadline: s.T.Add(o.dl), pkt: pkt}
		err := s.q.Insert(k.prefix, pkt, r.deadline, s.callback(r))
		if old := s.cur[o.key]; old != nil {
			s.stats.dup.Add(1)
			if err == nil {
				return &vk.Violation{Sig: "c04-duplicate-accepted", Msg: fmt.Sprintf("Insert(%s) accepted although an entry for it is pending", k)}
			}
		} else {
			if err != nil {
				return &vk.Violation{Sig: "c04-insert-rejected", Msg: fmt.Sprintf("Insert(%s) rejected (%v) although no entry for it is pending", k, err)}
			}
			r.pending = true
			s.regs = append(s.regs, r)
			snap = append(snap, 0, 0)
			s.cur[o.key] = r
			for _, other := range s.cur {
				if other != r && other.deadline.Round(time.Second).Equal(r.deadline.Round(time.Second)) {
					s.stats.sameBucket.Add(1)
				}
			}
		}
		v = s.others(snap, nil, o.String())
	case "ack", "wrong", "unk":
		var err error
		var r *c04reg
		if o.kind == "unk" {
			err = s.q.Ack("s", &packet.PubAck{Header: &packet.Header{}, MessageId: 9})
			if err == nil {
				return &vk.Violation{Sig: "c04-unknown-ack-accepted", Msg: "Ack for an identifier that was never registered returned no error"}
			}
		} else {
			k := c04keys[o.key]
			r = s.cur[o.key]
			pk := 0
			if r != nil {
				pk = r.pk
			}
			var pkt packet.Packet
			if o.kind == "ack" {
				pkt = c04kinds[pk].right(k.id)
			} else {
				pkt = c04kinds[pk].wrong(k.id)
			}
			err = s.q.Ack(k.prefix, pkt)
			switch {
			case r == nil:
				if err == nil {
					return &vk.Violation{Sig: "c04-ack-nothing-pending-accepted", Msg: fmt.Sprintf("%s returned no error although nothing is pending for it", o)}
				}
			case o.kind == "ack":
				s.stats.acked.Add(1)
				if err != nil || r.acked != snap[2*s.index(r)]+1 {
					return &vk.Violation{Sig: "c04-right-ack-not-delivered", Msg: fmt.Sprintf("%s on a pending entry: err=%v, acknowledged callbacks %d (want exactly 1 more than %d)", o, err, r.acked, snap[2*s.index(r)])}
				}
				r.pending = false
				delete(s.cur, o.key)
			case o.kind == "wrong":
				s.stats.wrong.Add(1)
				if err == nil {
					return &vk.Violation{Sig: "c04-wrong-type-accepted", Msg: fmt.Sprintf("%s returned no error", o)}
				}
			}
		}
		allowed := map[*c04reg]bool{}
		if o.kind == "ack" && r != nil {
			allowed[r] = true
		}
		v = s.others(snap, allowed, o.String())
	case "sweep":
		now := s.T.Add(o.dl)
		s.q.Expire(now)
		for i, r := range s.regs {
			fired := r.expired - snap[2*i+1]
			if !r.pending {
				if fired != 0 || r.acked != snap[2*i] {
					return &vk.Violation{Sig: "c04-resolved-entry-fired-again", Msg: fmt.Sprintf("%s: entry %s already resolved got another callback", o, c04keys[r.key])}
				}
				continue
			}
			if r.acked != snap[2*i] {
				return &vk.Violation{Sig: "c04-sweep-acknowledged", Msg: fmt.Sprintf("%s reported %s acknowledged", o, c04keys[r.key])}
			}
			must := !r.deadline.After(now.Add(-time.Second))
			mustNot := !r.deadline.Before(now.Add(time.Second))
			if fired > 1 {
				return &vk.Violation{Sig: "c04-expired-twice", Msg: fmt.Sprintf("%s fired %s %d times", o, c04keys[r.key], fired)}
			}
			if must && fired != 1 {
				return &vk.Violation{Sig: "c04-not-expired", Msg: fmt.Sprintf("%s did not expire pending %s whose deadline T%+v is more than 1s in the past", o, c04keys[r.key], r.deadline.Sub(s.T))}
			}
			if mustNot && fired != 0 {
				return &vk.Violation{Sig: "c04-expired-early", Msg: fmt.Sprintf("%s expired %s whose deadline T%+v is more than 1s in the future", o, c04keys[r.key], r.deadline.Sub(s.T))}
			}
			if fired == 1 {
				s.stats.expired.Add(1)
				r.pending = false
				delete(s.cur, r.key)
			}
		}
	}
	if v == nil && len(s.inCB) > 0 {
		v = &vk.Violation{Sig: "c04-callback-args", Msg: s.inCB[0]}
	}
	if v == nil {
		for _, r := range s.regs {
			if s.outcomes(r) > 1 {
				return &vk.Violation{Sig: "c04-two-outcomes", Msg: fmt.Sprintf("entry %s has %d acknowledged and %d expired outcomes", c04keys[r.key], r.acked, r.expired)}
			}
		}
	}
	return v
}

func (s *c04sys) index(r *c04reg) int {
	for i, x := range s.regs {
		if x == r {
			return i
		}
	}
	return -1
}

// Final: a sweep far in the future must resolve everything still pending, exactly once.
func (s *c04sys) Final() *vk.Violation {
	s.q.Expire(s.T.Add(1000 * time.Second))
	for _, r := range s.regs {
		if r.pending && r.expired != 1 {
			return &vk.Violation{Sig: "c04-never-resolved", Msg: fmt.Sprintf("pending entry %s (deadline T%+v) was not expired by a sweep at T+1000s: it can never resolve", c04keys[r.key], r.deadline.Sub(s.T))}
		}
		if s.outcomes(r) != 1 {
			return &vk.Violation{Sig: "c04-outcome-count", Msg: fmt.Sprintf("entry %s ended with %d acknowledged + %d expired outcomes", c04keys[r.key], r.acked, r.expired)}
		}
	}
	return nil
}

func runC04Queue(rep *vk.Report, listName string, mk func() expiration.List, depth, nkinds int, deadline time.Time) {
	ops := c04alphabet(nkinds)
	wanted := replayWanted()
	st := &c04stats{}
	var seqs, steps atomic.Int64
	outcomes := vk.NewSet()
	for _, frac := range []time.Duration{100 * time.Millisecond, 400 * time.Millisecond} {
		T := time.Unix(1700000000, 0).Add(frac)
		for d := 1; d <= depth; d++ {
			if d >= 5 && frac != 100*time.Millisecond {
				continue // depth 5 is run for one sub-second offset only (cost); recorded in bounds
			}
			complete := Seqs(len(ops), d, true, deadline, func(seq []int) {
				if wanted != nil {
					names := make([]string, len(seq))
					for i, o := range seq {
						names[i] = ops[o].String()
					}
					if !replayMatch(wanted, map[string]any{"list": listName, "T_frac": frac.String(), "ops": names}) {
						return
					}
				}
				s := &c04sys{q: ack.VerifNewQueue(mk()), T: T, cur: map[int]*c04reg{}, stats: st}
				seqs.Add(1)
				for i, oi := range seq {
					var v *vk.Violation
					if p := vk.Recover(func() { v = s.Apply(ops[oi]) }); p != nil {
						v = &vk.Violation{Sig: "panic:" + ops[oi].kind, Msg: fmt.Sprintf("panic: %v", p)}
					}
					steps.Add(1)
					if v != nil {
						report(rep, v, listName, frac, ops, seq[:i+1])
						return
					}
				}
				var v *vk.Violation
				if p := vk.Recover(func() { v = s.Final() }); p != nil {
					v = &vk.Violation{Sig: "panic:final-sweep", Msg: fmt.Sprintf("panic: %v", p)}
				}
				if v != nil {
					report(rep, v, listName, frac, ops, seq)
				}
				if d == depth {
					sig := ""
					for _, r := range s.regs {
						sig += fmt.Sprintf("%d%d%d%d;", r.key, r.pk, r.acked, r.expired)
					}
					outcomes.AddString(sig)
				}
			})
			if !complete {
				rep.Cap("deadline")
			}
		}
	}
	rep.Evaluations += seqs.Load()
	rep.Paths += seqs.Load()
	rep.Transitions += steps.Load()
	rep.Outcomes += outcomes.Len()
	rep.States += outcomes.Len()
	rep.Nontrivial += outcomes.Len()
	rep.Extra[listName+"_acked"] = st.acked.Load()
	rep.Extra[listName+"_expired"] = st.expired.Load()
	rep.Extra[listName+"_duplicate_inserts"] = st.dup.Load()
	rep.Extra[listName+"_wrong_type_acks_on_pending"] = st.wrong.Load()
	rep.Extra[listName+"_same_bucket_coincidences"] = st.sameBucket.Load()
	rep.Floor(listName+"_acked", 1, st.acked.Load())
	rep.Floor(listName+"_expired", 1, st.expired.Load())
	rep.Floor(listName+"_same_bucket", 1, st.sameBucket.Load())
	rep.Floor(listName+"_outcomes", 10, outcomes.Len())
}

func report(rep *vk.Report, v *vk.Violation, listName string, frac time.Duration, ops []c04op, seq []int) {
	names := make([]string, len(seq))
	for i, o := range seq {
		names[i] = ops[o].String()
	}
	v.Sig = listName + ":" + v.Sig
	v.Msg = fmt.Sprintf("[%s, T=second+%v] after %v: %s", listName, frac, names, v.Msg)
	v.Replay = map[string]any{"list": listName, "T_frac": frac.String(), "ops": names}
	rep.Violate(*v)
}

func TestC04Queue(t *testing.T) {
	rep := vk.NewReport("C04", "C04/queue-sequences", "E1-seq")
	depth := vk.Pick(4, 5)
	nk := 2
	dl := vk.Deadline(240e9, 1500e9)
	runC04Queue(rep, "pqlist", expiration.VerifNewPQList, depth, nk, dl)
	runC04Queue(rep, "skiplist", expiration.VerifNewSkipList, vk.Pick(3, 4), vk.Pick(2, 4), dl)
	ops := c04alphabet(nk)
	names := []string{}
	for _, o := range ops {
		names = append(names, o.String())
	}
	sort.Strings(names)
	rep.Bounds["alphabet"] = names
	rep.Bounds["depth_pqlist"] = depth
	rep.Bounds["depth_skiplist"] = vk.Pick(3, 4)
	rep.Bounds["T_fraction_of_second"] = "0.1s and 0.4s up to depth 4; 0.1s only at depth 5"
	rep.Rule = "every sequence of length 1..d over the alphabet on a fresh ack.Queue (production heap-of-buckets list, and the skip-list), stepped against a map model; after each sequence a sweep at T+1000s must resolve everything pending; states/non-trivial = distinct final (key, kind, acknowledged, expired) outcome vectors of the depth-d sequences"
	rep.Sample([]string{ops[0].String(), ops[4].String(), "Ack(s/1,right-type)", "Sweep(T+5s)"})
	if err := rep.Write(); err != nil {
		t.Fatal(err)
	}
}
