package e1

import (
	"fmt"
	"sort"
	"strings"
	"time"

	"github.com/golang/protobuf/proto"
	"github.com/hashicorp/memberlist"
	"github.com/vx-labs/mqtt-protocol/packet"
	"github.com/vx-labs/wasp/v4/wasp/api"
	"github.com/vx-labs/wasp/v4/wasp/audit"
	"github.com/vx-labs/wasp/v4/wasp/distributed"
)

// Harness around the real replicated state (wasp/distributed). The CRDT clock is a package
// variable, so one process runs one exploration at a time (checks shard by subprocess).

type dnode struct {
	name string
	peer uint64
	off  int64
	q    *memberlist.TransmitLimitedQueue
	st   distributed.State
}

var (
	dTick int64
	dCur  *dnode
)

// dBase: the logical clock starts one hour before the real time at which the process started, rounded to a multiple of
// a tick: stamps look like production stamps (nanoseconds, in the recent past of the wall clock), so code that compares a
// stamp with the wall clock (expiry policies, clock-drift guards) sees what it would see in production; offsets of hours
// then model nodes whose clocks really are hours apart.
var dBase = (time.Now().Add(-time.Hour).UnixNano() / 1000) * 1000

// dFrozen: the clock keeps returning the same reading (several changes within one clock tick)
var dFrozen bool

// dStep: nanoseconds per clock reading (10 by default; C01 also runs its histories with more than an hour per reading, so
// that every entry is more than an hour old by the time of the next operation). dShift moves the base back so that
// such stamps stay in the past of the wall clock.
var dStep int64 = 10
var dShift int64

func dInstallClock() {
	distributed.VerifSetClock(func() int64 {
		if !dFrozen {
			dTick++
		}
		off := int64(0)
		if dCur != nil {
			off = dCur.off
		}
		return dBase - dShift + dStep*dTick + off
	})
}
func dResetClock() { dTick = 0; dCur = nil; dFrozen = false; dStep = 10; dShift = 0 }

func newDNode(name string, peer uint64, off int64) *dnode {
	return newDNodeRec(name, peer, off, audit.NoneRecorder())
}

// newDNodeRec: a node whose state reports to the given audit recorder.
func newDNodeRec(name string, peer uint64, off int64, rec audit.Recorder) *dnode {
	q := &memberlist.TransmitLimitedQueue{RetransmitMult: 1, NumNodes: func() int { return 1 }}
	return &dnode{name: name, peer: peer, off: off, q: q, st: distributed.NewState(peer, q, rec)}
}

// do runs a local mutation on this node (its clock offset applies) and returns the broadcasts it queued.
func (n *dnode) do(f func()) [][]byte {
	dCur = n
	f()
	dCur = nil
	return n.drain()
}
func (n *dnode) drain() [][]byte {
	var out [][]byte
	for {
		b := n.q.GetBroadcasts(0, 1<<24)
		if len(b) == 0 {
			return out
		}
		for _, x := range b {
			out = append(out, append([]byte{}, x...))
		}
	}
}
func (n *dnode) recv(msgs ...[]byte) {
	for _, m := range msgs {
		n.st.Distributor().NotifyMsg(m)
	}
}

// listing is the visible state of a node, canonical and order independent.
type listing struct {
	sessions map[string]string // id -> content
	subs     map[string]string // session|pattern -> content
	retained map[string]string // topic -> content
}

func (n *dnode) list() listing {
	l := listing{map[string]string{}, map[string]string{}, map[string]string{}}
	for _, s := range n.st.SessionMetadatas().All() {
		lwt := ""
		if s.LWT != nil {
			lwt = string(s.LWT.Topic)
		}
		k := s.SessionID
		if _, dup := l.sessions[k]; dup {
			k += "#dup"
		}
		l.sessions[k] = fmt.Sprintf("client=%s peer=%d mount=%s lwt=%s", s.ClientID, s.Peer, s.MountPoint, lwt)
	}
	for _, s := range n.st.Subscriptions().All() {
		k := s.SessionID + "|" + string(s.Pattern)
		for {
			if _, dup := l.subs[k]; !dup {
				break
			}
			k += "#dup"
		}
		l.subs[k] = fmt.Sprintf("peer=%d qos=%d", s.Peer, s.QoS)
	}
	msgs, err := n.st.Topics().Get([]byte("#"))
	if err != nil {
		l.retained["!error"] = err.Error()
	}
	for _, m := range msgs {
		k := string(m.Publish.Topic)
		for {
			if _, dup := l.retained[k]; !dup {
				break
			}
			k += "#dup"
		}
		l.retained[k] = string(m.Publish.Payload)
	}
	return l
}

func canonMap(m map[string]string) string {
	ks := make([]string, 0, len(m))
	for k := range m {
		ks = append(ks, k)
	}
	sort.Strings(ks)
	var b strings.Builder
	for _, k := range ks {
		fmt.Fprintf(&b, "%s{%s} ", k, m[k])
	}
	return b.String()
}
func (l listing) String() string {
	return "sessions[" + canonMap(l.sessions) + "] subscriptions[" + canonMap(l.subs) + "] retained[" + canonMap(l.retained) + "]"
}
func (l listing) equal(o listing) bool { return l.String() == o.String() }

// diffKeys returns the keys (kind:key) whose visible value differs between two listings.
func diffKeys(a, b listing) []string {
	var out []string
	d := func(kind string, x, y map[string]string) {
		for k, v := range x {
			if y[k] != v {
				out = append(out, kind+":"+k)
			}
		}
		for k := range y {
			if _, ok := x[k]; !ok {
				out = append(out, kind+":"+k)
			}
		}
	}
	d("session", a.sessions, b.sessions)
	d("sub", a.subs, b.subs)
	d("retained", a.retained, b.retained)
	sort.Strings(out)
	return out
}

// dEntry is one decoded entry of a broadcast.
type dEntry struct {
	kind    string // session, sub, retained
	key     string
	content string
	added   int64
	deleted int64
}

func (e dEntry) ts() int64 {
	if e.added > e.deleted {
		return e.added
	}
	return e.deleted
}
func (e dEntry) visible() bool { return e.added > 0 && e.added > e.deleted }

func decodeBroadcast(b []byte) ([]dEntry, error) {
	ev := &api.StateBroadcastEvent{}
	if err := proto.Unmarshal(b, ev); err != nil {
		return nil, err
	}
	var out []dEntry
	for _, s := range ev.SessionMetadatas {
		lwt := ""
		if s.LWT != nil {
			lwt = string(s.LWT.Topic)
		}
		out = append(out, dEntry{"session", s.SessionID, fmt.Sprintf("client=%s peer=%d mount=%s lwt=%s", s.ClientID, s.Peer, s.MountPoint, lwt), s.LastAdded, s.LastDeleted})
	}
	for _, s := range ev.Subscriptions {
		out = append(out, dEntry{"sub", s.SessionID + "|" + string(s.Pattern), fmt.Sprintf("peer=%d qos=%d", s.Peer, s.QoS), s.LastAdded, s.LastDeleted})
	}
	for _, m := range ev.RetainedMessages {
		t, p := "", ""
		if m.Publish != nil {
			t, p = string(m.Publish.Topic), string(m.Publish.Payload)
		}
		out = append(out, dEntry{"retained", t, p, m.LastAdded, m.LastDeleted})
	}
	return out, nil
}

// lwwListing is the reference: per key the entry with the greatest timestamp; visible iff added.
func lwwListing(entries []dEntry) listing {
	best := map[string]dEntry{}
	for _, e := range entries {
		k := e.kind + ":" + e.key
		if old, ok := best[k]; !ok || e.ts() > old.ts() {
			best[k] = e
		}
	}
	l := listing{map[string]string{}, map[string]string{}, map[string]string{}}
	for _, e := range best {
		if !e.visible() {
			continue
		}
		switch e.kind {
		case "session":
			l.sessions[e.key] = e.content
		case "sub":
			l.subs[e.key] = e.content
		case "retained":
			l.retained[e.key] = e.content
		}
	}
	return l
}

func pub(topic, payload string) *packet.Publish {
	return &packet.Publish{Header: &packet.Header{Retain: true}, Topic: []byte(topic), Payload: []byte(payload)}
}

// concatBroadcasts forms one batched event out of several (how a multi-entry event looks on the wire).
func concatBroadcasts(msgs [][]byte) []byte {
	var out []byte
	for _, m := range msgs {
		out = append(out, m...)
	}
	return out
}
