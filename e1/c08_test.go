package e1

import (
	"fmt"
	"strings"
	"testing"

	"verif/internal/vk"
)

// C08: convergence. Update sets U are produced by the real mutators on two origins whose clocks
// may be offset; every permutation x batching (and every single duplication) of U is delivered to
// a fresh replica; replicas and origins must list the newest-entry-wins result.

type c08op struct {
	name string
	node int // 0 = A, 1 = B
	run  func(n *dnode)
}

func c08alphabets() map[string][]c08op {
	A, B := 0, 1
	return map[string][]c08op{
		"sessions": {
			{"A.sess.Create(s1)", A, func(n *dnode) { n.st.SessionMetadatas().Create("s1", "c-A", 1, nil, "m") }},
			{"A.sess.Delete(s1)", A, func(n *dnode) { n.st.SessionMetadatas().Delete("s1") }},
			{"B.sess.Create(s1)", B, func(n *dnode) { n.st.SessionMetadatas().Create("s1", "c-B", 1, nil, "m") }},
			{"B.sess.Delete(s1)", B, func(n *dnode) { n.st.SessionMetadatas().Delete("s1") }},
			{"A.sess.Create(s2)", A, func(n *dnode) { n.st.SessionMetadatas().Create("s2", "", 1, nil, "m") }},
			{"B.sess.Delete(s2)", B, func(n *dnode) { n.st.SessionMetadatas().Delete("s2") }},
		},
		"subscriptions": {
			{"A.subs.Create(s1,m/a,q0)", A, func(n *dnode) { n.st.Subscriptions().Create("s1", []byte("m/a"), 0) }},
			{"A.subs.Delete(s1,m/a)", A, func(n *dnode) { n.st.Subscriptions().Delete("s1", []byte("m/a")) }},
			{"B.subs.Create(s1,m/a,q1)", B, func(n *dnode) { n.st.Subscriptions().Create("s1", []byte("m/a"), 1) }},
			{"B.subs.Delete(s1,m/a)", B, func(n *dnode) { n.st.Subscriptions().Delete("s1", []byte("m/a")) }},
			{"A.subs.Create(s2,m/a,q2)", A, func(n *dnode) { n.st.Subscriptions().Create("s2", []byte("m/a"), 2) }},
			{"B.subs.Create(s1,m/a/b,q0)", B, func(n *dnode) { n.st.Subscriptions().Create("s1", []byte("m/a/b"), 0) }},
		},
		"retained": {
			{"A.topics.Set(m/t,x)", A, func(n *dnode) { n.st.Topics().Set(pub("m/t", "x")) }},
			{"A.topics.Delete(m/t)", A, func(n *dnode) { n.st.Topics().Delete([]byte("m/t")) }},
			{"B.topics.Set(m/t,y)", B, func(n *dnode) { n.st.Topics().Set(pub("m/t", "y")) }},
			{"B.topics.Delete(m/t)", B, func(n *dnode) { n.st.Topics().Delete([]byte("m/t")) }},
			{"A.topics.Set(m/t/u,x)", A, func(n *dnode) { n.st.Topics().Set(pub("m/t/u", "x")) }},
			{"B.topics.Delete(m/t/u)", B, func(n *dnode) { n.st.Topics().Delete([]byte("m/t/u")) }},
		},
		"mixed": {
			{"A.sess.Create(s1)", A, func(n *dnode) { n.st.SessionMetadatas().Create("s1", "c-A", 1, nil, "m") }},
			{"B.sess.Delete(s1)", B, func(n *dnode) { n.st.SessionMetadatas().Delete("s1") }},
			{"A.subs.Create(s1,m/a,q0)", A, func(n *dnode) { n.st.Subscriptions().Create("s1", []byte("m/a"), 0) }},
			{"B.subs.Delete(s1,m/a)", B, func(n *dnode) { n.st.Subscriptions().Delete("s1", []byte("m/a")) }},
			{"A.topics.Set(m/t,x)", A, func(n *dnode) { n.st.Topics().Set(pub("m/t", "x")) }},
			{"B.topics.Delete(m/t)", B, func(n *dnode) { n.st.Topics().Delete([]byte("m/t")) }},
		},
	}
}

// compositions of n as ordered positive parts = contiguous batchings
func batchings(n int) [][]int {
	var out [][]int
	for mask := 0; mask < 1<<(n-1); mask++ {
		var parts []int
		cur := 1
		for i := 0; i < n-1; i++ {
			if mask&(1<<i) != 0 {
				parts = append(parts, cur)
				cur = 1
			} else {
				cur++
			}
		}
		parts = append(parts, cur)
		out = append(out, parts)
	}
	return out
}

func TestC08Convergence(t *testing.T) {
	maxU := vk.Pick(4, 5)
	alph := c08alphabets()
	kinds := []string{"sessions", "subscriptions", "retained", "mixed"}
	// +-25 = 2.5 ticks (never coincides with the other clock); +-10 = exactly one tick: B's clock then reads
	// exactly the stamp A just used, only meaningful with synchronised origins (otherwise a genuine tie)
	const hourAhead = int64(2*3_600_000_000_000 + 5)   // B's clock two hours ahead of A's, i.e. one hour ahead of the wall clock
	const nineBehind = int64(-9*3_600_000_000_000 + 5) // B's clock nine hours behind (beyond any 8-hour expiry window)
	offsets := []int64{0, -25, 25, -10, 10, hourAhead, nineBehind}
	shardedPhase(t, "C08", "C08/convergence", "E1-enum", "TestC08Convergence", func(sh vk.Shard, rep *vk.Report) {
		dInstallClock()
		deadline := vk.Deadline(200e9, 1500e9)
		states := vk.NewSet()
		nontriv := vk.NewSet()
		var deliveries, merges, scripts, changed, rejectedOlder int64
		perms := map[int][][]int{}
		batch := map[int][][]int{}
		for n := 1; n <= maxU; n++ {
			perms[n] = permutations(n)
			batch[n] = batchings(n)
		}
		idx := 0
	outer:
		for _, kind := range kinds {
			ops := alph[kind]
			for _, off := range offsets {
				for _, syncMode := range []bool{true, false} {
					if (off == -10 || off == 10) && (!syncMode || kind == "subscriptions" || kind == "mixed") {
						// subscription writes are plain last-writer-wins stamps (no bump): a one-tick offset would be a
						// genuine tie between an add and a removal, which the statement excludes
						continue
					}
					for n := 1; n <= maxU; n++ {
						if (off == -10 || off == 10) && n > 4 {
							continue
						}
						if (off == hourAhead || off == nineBehind) && n > 3 {
							continue // the far-apart clocks are explored up to three updates (cost)
						}
						if n == 5 && (off != 0 && !syncMode) {
							continue // largest size: skew only with synchronised origins (cost)
						}
						complete := Seqs(len(ops), n, false, deadline, func(seq []int) {
							idx++
							if !sh.Mine(idx) {
								return
							}
							scripts++
							dResetClock()
							nodes := []*dnode{newDNode("A", 1, 0), newDNode("B", 2, off)}
							var U [][]byte
							var owner []int
							var all []dEntry
							names := []string{}
							for _, oi := range seq {
								op := ops[oi]
								names = append(names, op.name)
								x := nodes[op.node]
								msgs := x.do(func() { op.run(x) })
								for _, m := range msgs {
									es, _ := decodeBroadcast(m)
									all = append(all, es...)
									U = append(U, m)
									owner = append(owner, op.node)
									if syncMode {
										nodes[1-op.node].recv(m)
									}
								}
							}
							if len(U) == 0 {
								return
							}
							if !syncMode {
								for i, m := range U {
									nodes[1-owner[i]].recv(m)
								}
							}
							want := lwwListing(all)
							ws := want.String()
							desc := map[string]any{"kind": kind, "B_clock_offset": off, "origins_synchronised": syncMode, "script": names}
							// origins
							for _, x := range nodes {
								if got := x.list().String(); got != ws {
									rep.Violate(vk.Violation{Sig: "c08-origin-diverges:" + kind,
										Msg:    fmt.Sprintf("%v: origin %s lists %s; newest-entry-wins over all updates gives %s", desc, x.name, got, ws),
										Replay: desc})
								}
							}
							// a replica that learns everything from origin A's snapshot (a joining node), and then is sent every update
							// once more, oldest first (retransmissions, a peer that lagged): the snapshot must carry what keeps older
							// updates from coming back
							{
								r := newDNode("S", 8, 0)
								r.st.Distributor().MergeRemoteState(nodes[0].st.Distributor().LocalState(false), true)
								for _, m := range U {
									r.st.Distributor().NotifyMsg(m)
								}
								if got := r.list().String(); got != ws {
									rep.Violate(vk.Violation{Sig: "c08-snapshot-replica-diverges:" + kind,
										Msg:    fmt.Sprintf("%v: a replica that merged origin A's snapshot and was then sent every update again lists %s; newest-entry-wins gives %s", desc, got, ws),
										Replay: desc})
								}
							}
							m := len(U)
							if m > maxU {
								return
							}
							deliver := func(order []int, parts []int, dup int) {
								r := newDNode("R", 9, 0)
								pos := 0
								var prev string
								for _, sz := range parts {
									var group [][]byte
									for k := 0; k < sz; k++ {
										group = append(group, U[order[pos]])
										pos++
									}
									r.st.Distributor().NotifyMsg(concatBroadcasts(group))
									merges++
									// a push/pull exchange is served between two deliveries: serving a snapshot only reads the state
									_ = r.st.Distributor().LocalState(false)
									cur := r.list().String()
									if cur != prev {
										changed++
									} else {
										rejectedOlder++
									}
									prev = cur
								}
								if dup >= 0 {
									r.st.Distributor().NotifyMsg(U[dup])
									merges++
								}
								deliveries++
								got := r.list().String()
								states.AddString(got)
								if got != ws {
									rep.Violate(vk.Violation{Sig: "c08-replica-diverges:" + kind,
										Msg:    fmt.Sprintf("%v: delivery order %v batches %v dup %d: replica lists %s; newest-entry-wins gives %s", desc, order, parts, dup, got, ws),
										Replay: map[string]any{"case": desc, "order": order, "batches": parts, "dup": dup}})
								}
							}
							one := make([]int, m)
							for i := range one {
								one[i] = 1
							}
							for _, p := range perms[m] {
								for _, b := range batch[m] {
									deliver(p, b, -1)
								}
								for d := 0; d < m; d++ {
									deliver(p, one, d)
								}
							}
							if m >= 3 {
								nontriv.AddString(ws + strings.Join(names, ","))
							}
							if scripts%400 == 1 {
								rep.Sample(desc)
							}
						})
						if !complete {
							rep.Cap("deadline")
							break outer
						}
					}
				}
			}
		}
		rep.Evaluations = deliveries
		rep.Paths = deliveries
		rep.Transitions = merges
		rep.States = states.Len()
		rep.Nontrivial = nontriv.Len()
		rep.Extra["scripts"] = float64(scripts)
		rep.Extra["merges_that_changed_state"] = float64(changed)
		rep.Extra["merges_that_changed_nothing"] = float64(rejectedOlder)
		vk.WriteHashes("states", "C08/convergence", states)
		vk.WriteHashes("nontrivial", "C08/convergence", nontriv)
	}, func(rep *vk.Report) {
		rep.Outcomes = rep.States
		rep.Bounds["max_updates"] = maxU
		rep.Bounds["kinds"] = kinds
		rep.Bounds["clock_offsets_of_B_in_tenths_of_a_tick"] = offsets
		rep.Bounds["delivery"] = "every permutation x every contiguous batching, plus every permutation followed by one duplicated update"
		rep.Rule = "U = broadcasts queued by a script of real mutator calls on origins A and B (B's clock offset by 0 / -2.5 / +2.5 ticks, two hours ahead or nine hours behind (stamps are wall-clock nanoseconds around the real present); origins synchronised after each call or only at the end); every delivery schedule to a fresh replica; states = distinct replica listings; non-trivial = distinct (script, result) with >= 3 updates"
		rep.Floor("merges_changed", 100, int64(rep.Extra["merges_that_changed_state"].(float64)))
		rep.Floor("merges_rejected", 100, int64(rep.Extra["merges_that_changed_nothing"].(float64)))
	})
}

func lwwOf(entries []dEntry) map[string]dEntry {
	best := map[string]dEntry{}
	for _, e := range entries {
		k := e.kind + ":" + e.key
		if old, ok := best[k]; !ok || e.ts() > old.ts() {
			best[k] = e
		}
	}
	return best
}
