package e1

import (
	"fmt"
	"sort"
	"strings"
	"testing"

	"github.com/vx-labs/wasp/v4/wasp"

	"verif/internal/vk"
)

// C06: identifier allocator. State = every field of the real allocator + the reference set of
// outstanding identifiers. BFS to fixpoint for small ranges; bounded depth from scripted states on
// the production range.

type poolSys struct {
	p        wasp.VerifMIDPool
	min, max int32
	out      map[int32]bool
	puts     []int32 // Put arguments of the alphabet
	prefix   func(s *poolSys)
	sawExh   bool
	sawReuse bool
	returned map[int32]bool
}

func (s *poolSys) size() int            { return int(s.max-s.min) + 1 }
func (s *poolSys) inRange(v int32) bool { return v >= s.min && v <= s.max }
func (s *poolSys) outs() string {
	ks := make([]int, 0, len(s.out))
	for k := range s.out {
		ks = append(ks, int(k))
	}
	sort.Ints(ks)
	return fmt.Sprint(ks)
}

func (s *poolSys) get() *vk.Violation {
	v := s.p.Get()
	if len(s.out) >= s.size() {
		s.sawExh = true
		if s.inRange(v) {
			kf := ""
			return &vk.Violation{Sig: "idpool-duplicate-when-exhausted", KF: kf, Msg: fmt.Sprintf("range %d..%d: every identifier is outstanding %s but Get returned %d instead of reporting exhaustion", s.min, s.max, s.outs(), v)}
		}
		return nil
	}
	if !s.inRange(v) {
		return &vk.Violation{Sig: "idpool-false-exhaustion", Msg: fmt.Sprintf("range %d..%d: outstanding %s, free identifiers exist but Get returned %d", s.min, s.max, s.outs(), v)}
	}
	if s.out[v] {
		return &vk.Violation{Sig: "idpool-duplicate", Msg: fmt.Sprintf("range %d..%d: Get returned %d which is still outstanding %s", s.min, s.max, v, s.outs())}
	}
	if s.returned[v] {
		s.sawReuse = true
	}
	s.out[v] = true
	return nil
}

func (s *poolSys) Apply(op int) *vk.Violation {
	if op == 0 {
		return s.get()
	}
	x := s.puts[op-1]
	s.p.Put(x)
	if s.out[x] {
		delete(s.out, x)
		s.returned[x] = true
	}
	return nil
}
func (s *poolSys) Key() string { return s.p.Fingerprint() + "#" + s.outs() }
func (s *poolSys) Nontrivial() bool {
	// fragmented: the free identifiers do not form one contiguous run, or the pool is exhausted
	if len(s.out) == s.size() {
		return true
	}
	runs := 0
	prevFree := false
	for v := s.min; v <= s.max; v++ {
		free := !s.out[v]
		if free && !prevFree {
			runs++
		}
		prevFree = free
	}
	return runs >= 2
}

// Final drains the pool: exactly the free identifiers must come out, each once, then exhaustion.
func (s *poolSys) Final() *vk.Violation {
	if s.size() > 64 {
		return nil
	}
	before := s.outs()
	free := s.size() - len(s.out)
	for i := 0; i < free; i++ {
		if v := s.get(); v != nil {
			v.Sig = "drain-" + v.Sig
			v.Msg = fmt.Sprintf("draining from outstanding=%s: %s", before, v.Msg)
			return v
		}
	}
	if v := s.get(); v != nil {
		v.Sig = "drain-" + v.Sig
		v.Msg = fmt.Sprintf("draining from outstanding=%s: %s", before, v.Msg)
		return v
	}
	return nil
}

func newPoolSys(min, max int32, prefix func(s *poolSys)) *poolSys {
	s := &poolSys{p: wasp.VerifNewMIDPool(min, max), min: min, max: max, out: map[int32]bool{}, returned: map[int32]bool{}}
	for x := min - 1; x <= max+1; x++ {
		s.puts = append(s.puts, x)
	}
	if prefix != nil {
		prefix(s)
	}
	return s
}

func TestC06Pool(t *testing.T) {
	rep := vk.NewReport("C06", "C06/allocator-states", "E1-bfs")
	ranges := [][2]int32{{0, 3}, {1, 4}, {5, 8}, {0, 5}, {1, 6}}
	if vk.Thorough() {
		ranges = append(ranges, [2]int32{0, 7}, [2]int32{1, 9}, [2]int32{-2, 2})
	}
	total := BFSResult{Exhaustive: true}
	deadline := vk.Deadline(100e9, 900e9)
	for _, r := range ranges {
		min, max := r[0], r[1]
		proto := newPoolSys(min, max, nil)
		cfg := BFSConfig{
			New:    func() Sys { return newPoolSys(min, max, nil) },
			NumOps: 1 + len(proto.puts),
			OpName: func(i int) string {
				if i == 0 {
					return "Get"
				}
				return fmt.Sprintf("Put(%d)", proto.puts[i-1])
			},
			Deadline: deadline, Parallel: true, MaxStates: 3000000,
		}
		res := BFS(cfg, rep)
		total.States += res.States
		total.Transitions += res.Transitions
		total.Nontrivial += res.Nontrivial
		if res.Depth > total.Depth {
			total.Depth = res.Depth
		}
		total.Exhaustive = total.Exhaustive && res.Exhaustive
		total.Caps = append(total.Caps, res.Caps...)
		if len(total.FirstPaths) < 4 {
			total.FirstPaths = append(total.FirstPaths, res.FirstPaths...)
		}
		rep.Extra[fmt.Sprintf("states_range_%d_%d", min, max)] = res.States
	}
	fillBFS(rep, total, "for each small range: all reachable (allocator fields, reference outstanding-set) states under Get / Put(x), x in min-1..max+1, BFS to fixpoint; in every state the pool is also drained on a replayed copy: exactly the free identifiers must come out once each, then an out-of-range value; non-trivial = free identifiers fragmented into >=2 runs, or pool exhausted")
	rep.Bounds["ranges"] = ranges
	rep.Floor("states", 100, total.States)
	rep.Floor("nontrivial", 20, total.Nontrivial)

	// production range: bounded depth from scripted states
	prodDepth := vk.Pick(3, 4)
	type start struct {
		name string
		pre  func(s *poolSys)
	}
	starts := []start{
		{"fresh", nil},
		{"65534-outstanding", func(s *poolSys) {
			for i := 0; i < 65534; i++ {
				s.get()
			}
		}},
		{"65535-outstanding", func(s *poolSys) {
			for i := 0; i < 65535; i++ {
				s.get()
			}
		}},
		{"all-outstanding", func(s *poolSys) {
			for i := 0; i < 65536; i++ {
				s.get()
			}
		}},
	}
	puts := []int32{-1, 0, 1, 2, 65534, 65535, 65536}
	nops := 1 + len(puts)
	var seqs, steps int64
	// The scripted prefixes cost 65k Gets each, so sequences are grouped: one fresh pool per
	// (start, first op), cloned by re-running the prefix.
	for _, st := range starts {
		complete := Seqs(nops, prodDepth, true, vk.Deadline(150e9, 900e9), func(seq []int) {
			s := newPoolSys(0, 65535, nil)
			s.puts = puts
			if st.pre != nil {
				var pv *vk.Violation
				func() {
					defer func() { recover() }()
					for i := 0; i < 65536; i++ {
						if len(s.out) >= preTarget(st.name) {
							break
						}
						if v := s.get(); v != nil {
							pv = v
							break
						}
					}
				}()
				if pv != nil {
					pv.Msg = "while reaching start state " + st.name + ": " + pv.Msg
					pv.Replay = map[string]any{"start": st.name}
					rep.Violate(*pv)
					return
				}
			}
			names := []string{}
			for _, op := range seq {
				name := "Get"
				if op > 0 {
					name = fmt.Sprintf("Put(%d)", puts[op-1])
				}
				names = append(names, name)
				var v *vk.Violation
				if p := vk.Recover(func() { v = s.Apply(op) }); p != nil {
					v = &vk.Violation{Sig: "panic:" + opKind(name), Msg: fmt.Sprintf("panic: %v", p)}
				}
				if v != nil {
					v.Msg = fmt.Sprintf("production range from %s after %v: %s", st.name, names, v.Msg)
					v.Replay = map[string]any{"start": st.name, "ops": append([]string{}, names...)}
					rep.Violate(*v)
					return
				}
			}
		})
		if !complete {
			rep.Cap("deadline-production-range")
		}
		n := int64(1)
		for i := 0; i < prodDepth; i++ {
			n *= int64(nops)
		}
		seqs += n
		steps += n * int64(prodDepth)
	}
	rep.Evaluations += seqs
	rep.Transitions += steps
	rep.Paths += seqs
	rep.Bounds["production_range"] = map[string]any{"range": "0..65535", "starts": []string{"fresh", "65534-outstanding", "65535-outstanding", "all-outstanding"}, "depth": prodDepth, "alphabet": "Get, Put(-1|0|1|2|65534|65535|65536)"}
	rep.Sample(map[string]any{"production_range_start": "all-outstanding", "ops": strings.Split("Get Put(65535) Get Get", " ")})
	if err := rep.Write(); err != nil {
		t.Fatal(err)
	}
}

func preTarget(name string) int {
	switch name {
	case "65534-outstanding":
		return 65534
	case "65535-outstanding":
		return 65535
	case "all-outstanding":
		return 65536
	}
	return 0
}
