package e1

import (
	"testing"
	"time"

	"verif/internal/vk"
)

// shardedPhase runs child(sh, rep) in Workers() subprocesses (one shard each) and merges their
// reports; used by every phase that needs the process-global CRDT clock hook.
func shardedPhase(t *testing.T, property, phase, engine, testName string, child func(sh vk.Shard, rep *vk.Report), finish func(rep *vk.Report)) {
	sh, isChild := vk.ShardFromEnv()
	if isChild {
		rep := vk.NewReport(property, phase, engine)
		child(sh, rep)
		if err := rep.Write(); err != nil {
			t.Fatal(err)
		}
		return
	}
	if err := vk.RunShards(testName, vk.Workers()); err != nil {
		rep := vk.NewReport(property, phase, engine)
		rep.HarnessError("%v", err)
		rep.Write()
		t.Fatal(err)
	}
	rep, err := vk.MergeShardReports(property, phase, engine)
	if err != nil {
		t.Fatal(err)
	}
	if finish != nil {
		finish(rep)
	}
	if err := rep.Write(); err != nil {
		t.Fatal(err)
	}
}

func timeUp(deadline time.Time) bool { return !deadline.IsZero() && time.Now().After(deadline) }
