package e1

import (
	"encoding/json"
	"os"
	"testing"
	"time"

	"verif/internal/vk"
)

// shardedPhase runs child(sh, rep) in Workers() subprocesses (one shard each) and merges their
// reports; used by every phase that needs the process-global CRDT clock hook.
func shardedPhase(t *testing.T, property, phase, engine, testName string, child func(sh vk.Shard, rep *vk.Report), finish func(rep *vk.Report)) {
	sh, isChild := vk.ShardFromEnv()
	if isChild {
		rep := vk.NewReport(property, phase, engine)
		child(sh, rep)
		if err := rep.Write(); err != nil {
			t.Fatal(err)
		}
		return
	}
	if err := vk.RunShards(testName, vk.Workers()); err != nil {
		rep := vk.NewReport(property, phase, engine)
		rep.HarnessError("%v", err)
		rep.Write()
		t.Fatal(err)
	}
	rep, err := vk.MergeShardReports(property, phase, engine)
	if err != nil {
		t.Fatal(err)
	}
	if finish != nil {
		finish(rep)
	}
	if err := rep.Write(); err != nil {
		t.Fatal(err)
	}
}

func timeUp(deadline time.Time) bool { return !deadline.IsZero() && time.Now().After(deadline) }

// replayWanted returns the "replay" object of the file named by VERIF_REPLAY (nil when not replaying).
func replayWanted() any {
	f := os.Getenv("VERIF_REPLAY")
	if f == "" {
		return nil
	}
	b, err := os.ReadFile(f)
	if err != nil {
		return nil
	}
	var body struct {
		Replay any `json:"replay"`
	}
	if json.Unmarshal(b, &body) != nil {
		return nil
	}
	return body.Replay
}

// replayMatch reports whether candidate (the replay object a case would record) equals the recorded one;
// when not replaying every case matches. Enumerations call it before executing a case, so a replay run
// executes exactly the recorded case (several times where the caller loops) and nothing else.
func replayMatch(wanted any, candidate any) bool {
	if wanted == nil {
		return true
	}
	a, _ := json.Marshal(wanted)
	var norm any
	b, _ := json.Marshal(candidate)
	json.Unmarshal(b, &norm)
	b, _ = json.Marshal(norm)
	return string(a) == string(b)
}
