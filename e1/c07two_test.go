package e1

import (
	"fmt"
	"testing"

	"verif/internal/vk"
)

// C07 (two publishers): retained Set / Delete on one topic issued on two nodes, each change's broadcast either delivered
// at once or only at the end (every subset). Once everything is delivered both nodes must replay what the LAST change
// (in issue order: the clocks are synchronised) left: its payload, or nothing after a removal.
func TestC07TwoWriters(t *testing.T) {
	rep := vk.NewReport("C07", "C07/two-publishers", "E1-enum")
	dInstallClock()
	type wop struct {
		node    int
		set     bool
		payload string
	}
	var ops []wop
	for n := 0; n < 2; n++ {
		ops = append(ops, wop{n, true, "x"}, wop{n, true, "y"}, wop{n, false, ""})
	}
	name := func(o wop) string {
		who := []string{"A", "B"}[o.node]
		if o.set {
			return fmt.Sprintf("%s.Set(m/a,%s)", who, o.payload)
		}
		return who + ".Delete(m/a)"
	}
	depth := vk.Pick(4, 5)
	states := vk.NewSet()
	var cases, steps, heldOverwrites int64
	for d := 1; d <= depth; d++ {
		Seqs(len(ops), d, false, vk.Deadline(120e9, 600e9), func(seq []int) {
			for held := 0; held <= 1<<d; held++ {
				// the extra case: nothing held, and the clock never advances (every change falls within one reading of it;
				// with something held two nodes could stamp one topic equally without knowing of each other: a genuine tie)
				frozen := held == 1<<d
				if frozen {
					held = 0
				}
				cases++
				dResetClock()
				dFrozen = frozen
				nodes := []*dnode{newDNode("A", 1, 0), newDNode("B", 2, 0)}
				var names []string
				var late [][2]any
				want := ""
				for i, oi := range seq {
					o := ops[oi]
					names = append(names, name(o))
					n := nodes[o.node]
					steps++
					msgs := n.do(func() {
						if o.set {
							n.st.Topics().Set(pub("m/a", o.payload))
						} else {
							n.st.Topics().Delete([]byte("m/a"))
						}
					})
					if held&(1<<i) != 0 {
						late = append(late, [2]any{nodes[1-o.node], msgs})
					} else {
						nodes[1-o.node].recv(msgs...)
					}
					want = ""
					if o.set {
						want = "m/a=" + o.payload
					}
				}
				if len(late) > 0 {
					heldOverwrites++
				}
				for _, l := range late {
					l[0].(*dnode).recv(l[1].([][]byte)...)
				}
				desc := map[string]any{"ops": names, "held_until_end_mask": held}
				if frozen {
					desc["clock"] = "frozen"
				}
				for _, n := range nodes {
					got := ""
					msgs, _ := n.st.Topics().Get([]byte("m/a"))
					for _, m := range msgs {
						got += string(m.Publish.Topic) + "=" + string(m.Publish.Payload)
					}
					if got != want {
						rep.Violate(vk.Violation{Sig: "c07-two-publishers-last-change-lost", Msg: fmt.Sprintf("%v (broadcasts of the changes in mask %b delivered only at the end; clock frozen: %v): node %s replays [%s] for m/a, the last change left [%s]", names, held, frozen, n.name, got, want), Replay: desc})
						return
					}
				}
				states.AddString(fmt.Sprint(names, held, frozen))
				if frozen {
					break
				}
			}
		})
	}
	rep.Evaluations = cases
	rep.Paths = cases
	rep.Transitions = steps
	rep.States = states.Len()
	rep.Outcomes = 3
	rep.Nontrivial = heldOverwrites
	rep.Bounds["depth"] = depth
	rep.Bounds["delivery"] = "each change's broadcast at once or at the end, every subset; plus, with everything delivered at once, a clock that never advances"
	rep.Rule = "every sequence of length 1..d over {A,B} x {Set x, Set y, Delete} on one retained topic x every subset of broadcasts held back until the end; after delivery both nodes' Get(topic) equals what the last change left; non-trivial = cases with at least one held broadcast"
	rep.Floor("held", 100, heldOverwrites)
	rep.Sample([]string{name(ops[0]), name(ops[4]), name(ops[0])})
	if err := rep.Write(); err != nil {
		t.Fatal(err)
	}
}
