package e1

import (
	"fmt"
	"reflect"
	"sort"
	"strings"
	"unsafe"
)

// deepCanon renders EVERYTHING reachable from v (unexported fields included) canonically: structs field by field, maps
// with sorted keys, nil distinguished from empty, pointers by the order in which they are first met (so aliasing - a
// cached pointer into a tree, two fields sharing a node - is part of the rendering). Values of package sync are skipped
// (lock words of a quiescent structure carry no state), functions and channels are rendered by kind only.
// It is the state key of the explicit-state searches: a field added to a structure is part of the key without the
// harness knowing about it, so two instances that differ only in some hidden cache are never merged.
func deepCanon(v any) string {
	var b strings.Builder
	c := &canonizer{seen: map[unsafe.Pointer]int{}}
	c.walk(reflect.ValueOf(v), &b)
	return b.String()
}

type canonizer struct {
	seen map[unsafe.Pointer]int
}

func (c *canonizer) walk(v reflect.Value, b *strings.Builder) {
	if !v.IsValid() {
		b.WriteString("<invalid>")
		return
	}
	if v.Type().PkgPath() == "sync" || v.Type().PkgPath() == "sync/atomic" && v.Kind() == reflect.Struct && v.Type().Name() == "noCopy" {
		b.WriteString("_")
		return
	}
	switch v.Kind() {
	case reflect.Ptr:
		if v.IsNil() {
			b.WriteString("nil")
			return
		}
		p := unsafe.Pointer(v.Pointer())
		if id, ok := c.seen[p]; ok {
			fmt.Fprintf(b, "#%d", id)
			return
		}
		id := len(c.seen)
		c.seen[p] = id
		fmt.Fprintf(b, "&%d", id)
		c.walk(v.Elem(), b)
	case reflect.Interface:
		if v.IsNil() {
			b.WriteString("nil")
			return
		}
		b.WriteString(v.Elem().Type().String())
		b.WriteString(":")
		c.walk(v.Elem(), b)
	case reflect.Struct:
		b.WriteString("{")
		for i := 0; i < v.NumField(); i++ {
			f := v.Field(i)
			if !f.CanInterface() && f.CanAddr() {
				f = reflect.NewAt(f.Type(), unsafe.Pointer(f.UnsafeAddr())).Elem()
			}
			b.WriteString(v.Type().Field(i).Name)
			b.WriteString("=")
			c.walk(f, b)
			b.WriteString(";")
		}
		b.WriteString("}")
	case reflect.Map:
		if v.IsNil() {
			b.WriteString("nilmap")
			return
		}
		type kv struct{ k, v string }
		var items []kv
		it := v.MapRange()
		for it.Next() {
			var kb, vb strings.Builder
			c.walk(it.Key(), &kb)
			// values are walked in sorted key order below (pointer numbering must not depend on map iteration order)
			items = append(items, kv{kb.String(), ""})
			_ = vb
		}
		sort.Slice(items, func(i, j int) bool { return items[i].k < items[j].k })
		// second pass in sorted order
		byKey := map[string]reflect.Value{}
		it = v.MapRange()
		for it.Next() {
			var kb strings.Builder
			(&canonizer{seen: map[unsafe.Pointer]int{}}).walk(it.Key(), &kb)
			byKey[kb.String()] = it.Value()
		}
		b.WriteString("map[")
		for _, item := range items {
			b.WriteString(item.k)
			b.WriteString(":")
			if val, ok := byKey[item.k]; ok {
				c.walk(val, b)
			}
			b.WriteString(",")
		}
		b.WriteString("]")
	case reflect.Slice:
		if v.IsNil() {
			b.WriteString("nilslice")
			return
		}
		if v.Type().Elem().Kind() == reflect.Uint8 {
			fmt.Fprintf(b, "%q", v.Bytes())
			return
		}
		b.WriteString("[")
		for i := 0; i < v.Len(); i++ {
			c.walk(v.Index(i), b)
			b.WriteString(",")
		}
		b.WriteString("]")
	case reflect.Array:
		b.WriteString("[")
		for i := 0; i < v.Len(); i++ {
			c.walk(v.Index(i), b)
			b.WriteString(",")
		}
		b.WriteString("]")
	case reflect.String:
		fmt.Fprintf(b, "%q", v.String())
	case reflect.Bool:
		fmt.Fprintf(b, "%v", v.Bool())
	case reflect.Int, reflect.Int8, reflect.Int16, reflect.Int32, reflect.Int64:
		fmt.Fprintf(b, "%d", v.Int())
	case reflect.Uint, reflect.Uint8, reflect.Uint16, reflect.Uint32, reflect.Uint64, reflect.Uintptr:
		fmt.Fprintf(b, "%d", v.Uint())
	case reflect.Float32, reflect.Float64:
		fmt.Fprintf(b, "%g", v.Float())
	default:
		b.WriteString(v.Kind().String())
	}
}
