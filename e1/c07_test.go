package e1

import (
	"fmt"
	"sort"
	"strings"
	"testing"

	"verif/internal/vk"
)

// C07 (state half): every history of retained Set / Delete over prefix-sharing topics on node A,
// replicated to node B through A's broadcasts; Get(filter) for every filter of a wildcard alphabet on
// both nodes vs a map reference.

func TestC07Retained(t *testing.T) {
	depth := vk.Pick(4, 5)
	tps := []string{"m/a", "m/a/b", "m/a/b/c", "m/a/c", "m/b"}
	if vk.Thorough() {
		tps = append(tps, "m/a/") // a trailing empty level is a level of its own
	}
	type rop struct {
		set  bool
		t, p string
	}
	var ops []rop
	for _, tp := range tps {
		ops = append(ops, rop{true, tp, "x"}, rop{true, tp, "y"})
	}
	for _, tp := range tps {
		ops = append(ops, rop{false, tp, ""})
	}
	name := func(o rop) string {
		if o.set {
			return fmt.Sprintf("Set(%s,%s)", o.t, o.p)
		}
		return fmt.Sprintf("Delete(%s)", o.t)
	}
	var filters []string
	for _, f := range allFilters([]string{"a", "b", "c", "+"}, 3) {
		filters = append(filters, "m/"+f)
	}
	filters = append(filters, "#", "+/#", "m", "m/#", "+/a/#", "m/a/b/c/#", "m/+/+/+", "m/a/", "m/a/+", "m//", "m/+/")
	shardedPhase(t, "C07", "C07/retained-histories", "E1-seq", "TestC07Retained", func(sh vk.Shard, rep *vk.Report) {
		dInstallClock()
		deadline := vk.Deadline(150e9, 1200e9)
		states := vk.NewSet()
		nontriv := vk.NewSet()
		var seqs, steps, gets int64
		for d := 1; d <= depth; d++ {
			complete := SeqsShard(len(ops), d, sh, deadline, func(seq []int) {
				seqs++
				dResetClock()
				a := newDNode("A", 1, 0)
				b := newDNode("B", 2, 0)
				model := map[string]string{}
				var names []string
				var all [][]byte
				for _, oi := range seq {
					o := ops[oi]
					names = append(names, name(o))
					steps++
					var msgs [][]byte
					if p := vk.Recover(func() {
						msgs = a.do(func() {
							if o.set {
								a.st.Topics().Set(pub(o.t, o.p))
							} else {
								a.st.Topics().Delete([]byte(o.t))
							}
						})
					}); p != nil {
						rep.Violate(vk.Violation{Sig: "c07-panic", Msg: fmt.Sprintf("after %v: panic %v", names, p), Replay: map[string]any{"ops": names}})
						return
					}
					b.recv(msgs...)
					all = append(all, msgs...)
					if o.set {
						model[o.t] = o.p
					} else {
						delete(model, o.t)
					}
				}
				mk := fmt.Sprint(sortedSS(model))
				states.AddString(mk)
				if len(model) >= 2 {
					nontriv.AddString(mk)
				}
				// further replicas receive the same broadcasts in other orders (all permutations up to 3 updates, reversed beyond)
				nodes := []*dnode{a, b}
				var orders [][]int
				if len(all) <= 3 {
					orders = permutations(len(all))[1:]
				} else {
					rev := make([]int, len(all))
					for i := range rev {
						rev[i] = len(all) - 1 - i
					}
					orders = [][]int{rev}
				}
				for k, ord := range orders {
					r := newDNode(fmt.Sprintf("R%d", k), uint64(10+k), 0)
					for _, i := range ord {
						r.recv(all[i])
					}
					nodes = append(nodes, r)
				}
				// the snapshot also carries an entry the receiver refuses (a subscription without a session identifier, as the
				// node's RPC API lets an operator create): what the receiver does with THAT is not judged, the retained
				// messages of the same snapshot must arrive all the same
				a.do(func() { a.st.Subscriptions().CreateFrom("", 1, []byte("m/ghost"), 0) })
				snap := newDNode("S", 99, 0)
				snap.st.Distributor().MergeRemoteState(a.st.Distributor().LocalState(false), true)
				nodes = append(nodes, snap)
				for ni, n := range nodes {
					fs := filters
					if ni >= 2 {
						fs = []string{"#", "m/+", "m/a/#", "m/+/b", "m/a/b/c"}
					}
					for _, f := range fs {
						gets++
						msgs, err := n.st.Topics().Get([]byte(f))
						if err != nil {
							rep.Violate(vk.Violation{Sig: "c07-get-error", Msg: fmt.Sprintf("after %v: Get(%s) on %s: %v", names, f, n.name, err)})
							return
						}
						var got, want []string
						for _, m := range msgs {
							got = append(got, string(m.Publish.Topic)+"="+string(m.Publish.Payload))
						}
						for tp, p := range model {
							if refMatch(f, tp) {
								want = append(want, tp+"="+p)
							}
						}
						sort.Strings(got)
						sort.Strings(want)
						if strings.Join(got, " ") != strings.Join(want, " ") {
							who := "origin"
							if n == b {
								who = "replica"
							} else if n == snap {
								who = "snapshot-replica"
							} else if n != a {
								who = "reordered-replica"
							}
							rep.Violate(vk.Violation{Sig: "c07-retained-wrong:" + who + ":" + shape(strings.TrimPrefix(f, "m/")),
								Msg:    fmt.Sprintf("after %v: Get(%q) on the %s = %v, last non-empty retained payloads matching it: %v", names, f, who, got, want),
								Replay: map[string]any{"ops": append([]string{}, names...), "filter": f, "node": who}})
							return
						}
					}
				}
			})
			if !complete {
				rep.Cap("deadline")
			}
		}
		rep.Evaluations = seqs
		rep.Paths = seqs
		rep.Transitions = steps + gets
		rep.States = states.Len()
		rep.Nontrivial = nontriv.Len()
		rep.Extra["gets"] = float64(gets)
		vk.WriteHashes("states", "C07/retained-histories", states)
		vk.WriteHashes("nontrivial", "C07/retained-histories", nontriv)
		rep.Sample([]string{name(ops[0]), name(ops[3]), name(ops[10]), name(ops[1])})
	}, func(rep *vk.Report) {
		rep.Outcomes = rep.States
		var names []string
		for _, o := range ops {
			names = append(names, name(o))
		}
		rep.Bounds["alphabet"] = names
		rep.Bounds["depth"] = depth
		rep.Bounds["filters"] = fmt.Sprintf("%d filters: m/ + (<=3 levels over {a,b,c,+}, optional trailing #) plus #, +/#, m, m/#, +/a/#, m/a/b/c/#, m/+/+/+", len(filters))
		rep.Rule = "every Set/Delete sequence of length 1..d on TopicsState of node A, broadcasts delivered to node B; after each sequence Get(f) for every filter on both nodes equals {topic: last non-empty payload} filtered by the MQTT 4.7 reference; states = distinct retained maps; non-trivial = maps with >= 2 topics"
		rep.Floor("retained_maps", 50, rep.States)
	})
}

func sortedSS(m map[string]string) []string {
	var out []string
	for k, v := range m {
		out = append(out, k+"="+v)
	}
	sort.Strings(out)
	return out
}
