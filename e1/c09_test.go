package e1

import (
	"fmt"

	"github.com/vx-labs/wasp/v4/wasp/audit"
	"sort"
	"strings"
	"testing"

	"verif/internal/vk"
)

// C09: every local change on node A is carried completely by the broadcasts it queues: a mirror M
// fed with exactly those broadcasts lists the same state after every step.

type dop struct {
	name string
	run  func(n *dnode)
	bulk bool
}

var c09longTopic = "m/t/" + strings.Repeat("u", 130)

func c09alphabet() []dop {
	S := func(n *dnode) { _ = n }
	_ = S
	var ops []dop
	add := func(name string, bulk bool, f func(n *dnode)) { ops = append(ops, dop{name, f, bulk}) }
	add("sess.Create(s1)", false, func(n *dnode) { n.st.SessionMetadatas().Create("s1", "c1", 1, nil, "m") })
	add("sess.Create(s2)", false, func(n *dnode) { n.st.SessionMetadatas().Create("s2", "", 1, pub("w", "bye"), "m") })
	// a second session of the SAME client (a takeover creates it right after removing the first): records are per session
	add("sess.Create(s3,client c1)", false, func(n *dnode) { n.st.SessionMetadatas().Create("s3", "c1", 1, nil, "m") })
	add("sess.Delete(s1)", false, func(n *dnode) { n.st.SessionMetadatas().Delete("s1") })
	add("sess.Delete(s2)", false, func(n *dnode) { n.st.SessionMetadatas().Delete("s2") })
	add("sess.Delete(s3)", false, func(n *dnode) { n.st.SessionMetadatas().Delete("s3") })
	add("sess.DeletePeer(1)", true, func(n *dnode) { n.st.SessionMetadatas().DeletePeer(1) })
	add("sess.DeletePeer(2)", true, func(n *dnode) { n.st.SessionMetadatas().DeletePeer(2) })
	add("subs.Create(s1,m/a)", false, func(n *dnode) { n.st.Subscriptions().Create("s1", []byte("m/a"), 0) })
	// QoS 3 is what a SUBSCRIBE asking for the reserved value is recorded with (nothing refuses it on the way in)
	add("subs.Create(s1,m/a/b,qos3)", false, func(n *dnode) { n.st.Subscriptions().Create("s1", []byte("m/a/b"), 3) })
	add("subs.Create(s2,m/a)", false, func(n *dnode) { n.st.Subscriptions().Create("s2", []byte("m/a"), 1) })
	add("subs.Create(s2,m/+)", false, func(n *dnode) { n.st.Subscriptions().Create("s2", []byte("m/+"), 2) })
	add("subs.Delete(s1,m/a)", false, func(n *dnode) { n.st.Subscriptions().Delete("s1", []byte("m/a")) })
	add("subs.Delete(s1,m/a/b)", false, func(n *dnode) { n.st.Subscriptions().Delete("s1", []byte("m/a/b")) })
	add("subs.Delete(s2,m/a)", false, func(n *dnode) { n.st.Subscriptions().Delete("s2", []byte("m/a")) })
	add("subs.Delete(s2,m/+)", false, func(n *dnode) { n.st.Subscriptions().Delete("s2", []byte("m/+")) })
	add("subs.DeleteSession(s1)", true, func(n *dnode) { n.st.Subscriptions().DeleteSession("s1") })
	add("subs.DeleteSession(s2)", true, func(n *dnode) { n.st.Subscriptions().DeleteSession("s2") })
	add("subs.DeleteSession(s3)", true, func(n *dnode) { n.st.Subscriptions().DeleteSession("s3") })
	add("subs.DeletePeer(1)", true, func(n *dnode) { n.st.Subscriptions().DeletePeer(1) })
	add("subs.DeletePeer(2)", true, func(n *dnode) { n.st.Subscriptions().DeletePeer(2) })
	add("topics.Set(m/t,x)", false, func(n *dnode) { n.st.Topics().Set(pub("m/t", "x")) })
	// a 300-byte payload (a small status document) and a 134-byte topic: entries whose encoding needs multi-byte lengths
	add("topics.Set(m/t,y*300)", false, func(n *dnode) { n.st.Topics().Set(pub("m/t", strings.Repeat("y", 300))) })
	add("topics.Set(m/t/u*130,x)", false, func(n *dnode) { n.st.Topics().Set(pub(c09longTopic, "x")) })
	add("topics.Delete(m/t)", false, func(n *dnode) { n.st.Topics().Delete([]byte("m/t")) })
	add("topics.Delete(m/t/u*130)", false, func(n *dnode) { n.st.Topics().Delete([]byte(c09longTopic)) })
	return ops
}

// preload gives A and M entries owned by peer 2 (a node B): two sessions, three subscriptions, one retained message.
func c09preload(a, m *dnode) {
	b := newDNode("B", 2, 0)
	var msgs [][]byte
	msgs = append(msgs, b.do(func() { b.st.SessionMetadatas().Create("s3", "c3", 1, nil, "m") })...)
	msgs = append(msgs, b.do(func() { b.st.SessionMetadatas().Create("s4", "c4", 1, pub("w4", "bye"), "m") })...)
	msgs = append(msgs, b.do(func() { b.st.Subscriptions().Create("s3", []byte("m/a"), 0) })...)
	msgs = append(msgs, b.do(func() { b.st.Subscriptions().Create("s3", []byte("m/#"), 1) })...)
	msgs = append(msgs, b.do(func() { b.st.Subscriptions().Create("s4", []byte("m/a/b"), 2) })...)
	msgs = append(msgs, b.do(func() { b.st.Topics().Set(pub("m/r", "z")) })...)
	a.recv(msgs...)
	m.recv(msgs...)
}

// c09bigPreload: peer 2 owns 11 subscriptions (9 of session s3) and 5 sessions: bulk removals then touch many entries.
func c09bigPreload(nodes ...*dnode) {
	b := newDNode("B", 2, 0)
	var msgs [][]byte
	for i := 0; i < 5; i++ {
		id := fmt.Sprintf("s3%c", 'a'+i)
		if i == 0 {
			id = "s3"
		}
		msgs = append(msgs, b.do(func() { b.st.SessionMetadatas().Create(id, "c"+id, 1, nil, "m") })...)
	}
	for i := 0; i < 9; i++ {
		f := fmt.Sprintf("m/big/%d", i)
		msgs = append(msgs, b.do(func() { b.st.Subscriptions().Create("s3", []byte(f), 0) })...)
	}
	msgs = append(msgs, b.do(func() { b.st.Subscriptions().Create("s3a", []byte("m/a"), 1) })...)
	msgs = append(msgs, b.do(func() { b.st.Subscriptions().Create("s3b", []byte("m/+"), 1) })...)
	for _, n := range nodes {
		n.recv(msgs...)
	}
}

func TestC09Broadcasts(t *testing.T) {
	depth := vk.Pick(4, 5)
	ops := c09alphabet()
	shardedPhase(t, "C09", "C09/broadcast-completeness", "E1-seq", "TestC09Broadcasts", func(sh vk.Shard, rep *vk.Report) {
		dInstallClock()
		wanted := replayWanted()
		deadline := vk.Deadline(150e9, 1200e9)
		states := vk.NewSet()
		nontriv := vk.NewSet()
		var seqs, steps, bulkMany int64
		for pm, preload := range []bool{false, true, true, true, false} {
			big := pm == 2
			frozen := pm == 3
			// the broker's default audit recorder (stdout): it fails on session identifiers shorter than 8 characters (its
			// template slices them), and a failing audit sink must not come between a change and its broadcast
			stdoutAudit := pm == 4 // every operation of the sequence (and the preload) falls within one reading of the clock
			d := depth
			if big {
				d = depth - 2 // the large preload is explored two operations shallower
			}
			if frozen {
				d = depth - 1
			}
			if stdoutAudit {
				d = 2
			}
			complete := SeqsShard(len(ops), d, sh, deadline, func(seq []int) {
				if wanted != nil {
					nm := make([]string, len(seq))
					for i, o := range seq {
						nm[i] = ops[o].name
					}
					ok := false
					for k := 1; k <= len(nm) && !ok; k++ { // violations are recorded with the prefix that exposed them
						ok = replayMatch(wanted, map[string]any{"preload": preload, "ops": nm[:k]}) || replayMatch(wanted, map[string]any{"preload": preload, "ops": nm[:k], "drain": "at end"}) ||
							replayMatch(wanted, map[string]any{"preload": preload, "ops": nm[:k], "clock": "frozen"}) || replayMatch(wanted, map[string]any{"preload": preload, "ops": nm[:k], "drain": "at end", "clock": "frozen"})
					}
					if !ok {
						return
					}
				}
				seqs++
				dResetClock()
				dFrozen = frozen
				a := newDNode("A", 1, 0)
				if stdoutAudit {
					a = newDNodeRec("A", 1, 0, audit.StdoutRecorder())
				}
				m := newDNode("M", 3, 0)
				// a second origin whose queue is only drained at the end of the sequence: broadcasts stay
				// pending while later operations queue theirs (a queued broadcast must not cancel another)
				a2 := newDNode("A", 1, 0)
				m2 := newDNode("M2", 4, 0)
				if big {
					c09bigPreload(a, m, a2, m2)
				} else if preload {
					c09preload(a, m)
					c09preload(a2, m2)
				}
				names := make([]string, 0, len(seq))
				for _, oi := range seq {
					op := ops[oi]
					names = append(names, op.name)
					before := a.list()
					var msgs [][]byte
					if p := vk.Recover(func() { msgs = a.do(func() { op.run(a) }) }); p != nil {
						rep.Violate(vk.Violation{Sig: "c09-panic:" + opKind(op.name), Msg: fmt.Sprintf("preload=%v frozen-clock=%v after %v: panic %v", preload, frozen, names, p), Replay: c09desc(preload, frozen, names, false)})
						return
					}
					steps++
					m.recv(msgs...)
					dCur = a2
					vk.Recover(func() { op.run(a2) })
					dCur = nil
					after := a.list()
					la, lm := after.String(), m.list().String()
					changed := diffKeys(before, after)
					if op.bulk && len(changed) >= 2 {
						bulkMany++
						nontriv.AddString(la)
					}
					states.AddString(la)
					if la != lm {
						kf := ""
						rep.Violate(vk.Violation{Sig: "c09-mirror-differs:" + opKind(op.name), KF: kf,
							Msg:    fmt.Sprintf("preload=%v frozen-clock=%v after %v: origin lists %s but the node fed with its broadcasts lists %s", preload, frozen, names, la, lm),
							Replay: c09desc(preload, frozen, names, false)})
						return
					}
					// every entry whose visible state changed must be named by the broadcast(s) of this operation
					named := map[string]bool{}
					for _, b := range msgs {
						es, err := decodeBroadcast(b)
						if err != nil {
							rep.Violate(vk.Violation{Sig: "c09-undecodable-broadcast", Msg: err.Error()})
							return
						}
						for _, e := range es {
							named[e.kind+":"+e.key] = true
						}
					}
					_ = a2
					for _, k := range changed {
						if !named[strings.TrimSuffix(k, "#dup")] {
							rep.Violate(vk.Violation{Sig: "c09-change-without-broadcast:" + opKind(op.name),
								Msg:    fmt.Sprintf("preload=%v frozen-clock=%v after %v: %s changed on the origin but no broadcast of that operation names it (named: %v)", preload, frozen, names, k, keysOf(named)),
								Replay: c09desc(preload, frozen, names, false)})
							return
						}
					}
				}
				// lazily drained origin: everything it queued is delivered now, in the queue's own order
				// (not under the frozen clock: subscription changes are stamped with the plain reading, so two of them on one key
				// are then a genuine tie, and the queue does not keep the order in which they were made)
				m2.recv(a2.drain()...)
				if la, lm := a2.list().String(), m2.list().String(); la != lm && !frozen {
					rep.Violate(vk.Violation{Sig: "c09-pending-broadcast-lost",
						Msg:    fmt.Sprintf("preload=%v, %v with the queue drained only at the end: origin lists %s but the node fed with its broadcasts lists %s", preload, names, la, lm),
						Replay: c09desc(preload, frozen, names, true)})
				}
			})
			if !complete {
				rep.Cap("deadline")
			}
		}
		rep.Evaluations = seqs
		rep.Paths = seqs
		rep.Transitions = steps
		rep.States = states.Len()
		rep.Outcomes = states.Len()
		rep.Nontrivial = nontriv.Len()
		rep.Extra["bulk_ops_touching_2plus_entries"] = float64(bulkMany)
		vk.WriteHashes("states", "C09/broadcast-completeness", states)
		vk.WriteHashes("nontrivial", "C09/broadcast-completeness", nontriv)
		rep.Sample([]string{ops[0].name, ops[7].name, ops[8].name, ops[15].name})
	}, func(rep *vk.Report) {
		rep.Outcomes = rep.States
		names := []string{}
		for _, o := range ops {
			names = append(names, o.name)
		}
		rep.Bounds["alphabet"] = names
		rep.Bounds["depth"] = depth
		rep.Bounds["clock"] = "ticking at every reading; additionally every sequence of length depth-1 (with preload) under a clock that never advances (all changes within one reading), in-order mirror only"
		rep.Bounds["preload"] = "each sequence from an empty node and from a node holding 2 sessions, 3 subscriptions, 1 retained message of peer 2"
		rep.Rule = "every operation sequence of length d on node A; after each operation A's queue is drained into mirror M and listings compared; changed keys must be named by that operation's broadcast; states = distinct origin listings; non-trivial = listings reached by a bulk operation that changed >= 2 entries"
		rep.Floor("bulk_many", 10, int64(rep.Extra["bulk_ops_touching_2plus_entries"].(float64)))
		rep.Floor("states", 100, rep.States)
	})
}

func c09desc(preload, frozen bool, names []string, drainAtEnd bool) map[string]any {
	d := map[string]any{"preload": preload, "ops": append([]string{}, names...)}
	if frozen {
		d["clock"] = "frozen"
	}
	if drainAtEnd {
		d["drain"] = "at end"
	}
	return d
}

func keysOf(m map[string]bool) []string {
	out := []string{}
	for k := range m {
		out = append(out, k)
	}
	sort.Strings(out)
	return out
}
